package sim

// Reference model (DESIGN.md §4). Written independently of the implementation:
// nothing in this file calls into the controller package or into
// client/apis/apps/v1/helper.

import (
	"bytes"
	"encoding/json"
	"fmt"
	"regexp"
	"sort"
	"strconv"

	appsv1 "k8s.io/api/apps/v1"
	v1 "k8s.io/api/core/v1"
	"k8s.io/apimachinery/pkg/api/resource"
	metav1 "k8s.io/apimachinery/pkg/apis/meta/v1"
	"k8s.io/apimachinery/pkg/labels"
	"k8s.io/apimachinery/pkg/types"

	asv1 "github.com/pingcap/advanced-statefulset/client/apis/apps/v1"
)

const (
	annSlots      = "delete-slots"
	annPaused     = "paused-reconcile"
	lblUpgrade    = "apps.pingcap.com/upgrade-to-asts"
	lblPodName    = "statefulset.kubernetes.io/pod-name"
	lblRevision   = "controller-revision-hash"
	crdAPIVersion = "apps.pingcap.com/v1"
	crdKind       = "StatefulSet"
	NS            = "ns"
)

// ModelSlots decodes the delete-slots annotation as the format is documented:
// a JSON list of int32; anything undecodable means "no slots".
func ModelSlots(ann map[string]string) map[int32]bool {
	out := map[int32]bool{}
	v, ok := ann[annSlots]
	if !ok {
		return out
	}
	var l []int32
	if err := json.Unmarshal([]byte(v), &l); err != nil {
		return map[int32]bool{}
	}
	for _, x := range l {
		out[x] = true
	}
	return out
}

// Desired returns the first r naturals that are not slots, ascending.
func Desired(r int32, slots map[int32]bool) []int32 {
	out := make([]int32, 0, r)
	for i := int32(0); int32(len(out)) < r; i++ {
		if !slots[i] {
			out = append(out, i)
		}
		if i == 1<<30 {
			break
		}
	}
	return out
}

func DesiredSet(r int32, slots map[int32]bool) map[int32]bool {
	m := map[int32]bool{}
	for _, x := range Desired(r, slots) {
		m[x] = true
	}
	return m
}

// Bound is max(desired)+1, or 0 when nothing is desired.
func Bound(r int32, slots map[int32]bool) int32 {
	d := Desired(r, slots)
	if len(d) == 0 {
		return 0
	}
	return d[len(d)-1] + 1
}

func specReplicas(set *asv1.StatefulSet) int32 {
	if set.Spec.Replicas == nil {
		return 1
	}
	return *set.Spec.Replicas
}

func setDesired(set *asv1.StatefulSet) map[int32]bool {
	return DesiredSet(specReplicas(set), ModelSlots(set.Annotations))
}

var podNameRe = regexp.MustCompile(`^(.*)-([0-9]+)$`)

// podOrdinal parses "<parent>-<n>"; ok is false when the name has another shape
// or the number does not fit an int32.
func podOrdinal(name string) (parent string, ord int32, ok bool) {
	m := podNameRe.FindStringSubmatch(name)
	if m == nil {
		return "", -1, false
	}
	n, err := strconv.ParseInt(m[2], 10, 32)
	if err != nil {
		return m[1], -1, false
	}
	return m[1], int32(n), true
}

func controllerOf(o metav1.Object) *metav1.OwnerReference {
	for i := range o.GetOwnerReferences() {
		r := &o.GetOwnerReferences()[i]
		if r.Controller != nil && *r.Controller {
			return r
		}
	}
	return nil
}

func podReady(p *v1.Pod) bool {
	for _, c := range p.Status.Conditions {
		if c.Type == v1.PodReady {
			return c.Status == v1.ConditionTrue
		}
	}
	return false
}
func podRunningReady(p *v1.Pod) bool { return p.Status.Phase == v1.PodRunning && podReady(p) }
func podTerminating(p *v1.Pod) bool  { return p.DeletionTimestamp != nil }
func podHealthy(p *v1.Pod) bool      { return podRunningReady(p) && !podTerminating(p) }
func podTerminal(p *v1.Pod) bool {
	return p.Status.Phase == v1.PodFailed || p.Status.Phase == v1.PodSucceeded
}
func podRevision(p *v1.Pod) string { return p.Labels[lblRevision] }

func setSelector(set *asv1.StatefulSet) (labels.Selector, error) {
	return metav1.LabelSelectorAsSelector(set.Spec.Selector)
}

// ---- templates ------------------------------------------------------------------

// Template returns pod template version v of a set with the given labels. The
// space is small on purpose: versions differ in image, env, grace period,
// annotations and resources. All values are inside pod validation ranges.
func Template(lbls map[string]string, v int) v1.PodTemplateSpec {
	t := v1.PodTemplateSpec{}
	t.Labels = map[string]string{}
	for k, x := range lbls {
		t.Labels[k] = x
	}
	c := v1.Container{Name: "main", Image: fmt.Sprintf("img:%d", v%4)}
	switch v % 7 {
	case 1:
		c.Env = []v1.EnvVar{{Name: "A", Value: "1"}}
	case 2:
		g := int64(30 + v)
		t.Spec.TerminationGracePeriodSeconds = &g
	case 3:
		t.Annotations = map[string]string{"note": fmt.Sprint(v)}
	case 4:
		c.Resources.Requests = v1.ResourceList{v1.ResourceCPU: resource.MustParse("100m")}
	case 5:
		t.Labels["extra"] = fmt.Sprint(v)
	case 6:
		uid := int64(1000 + v)
		t.Spec.SecurityContext = &v1.PodSecurityContext{RunAsUser: &uid}
	}
	if v >= 7 {
		c.Args = []string{fmt.Sprint(v)}
	}
	if v == 11 {
		// accepted by pod validation (no upper bound) but beyond the integers a
		// float64 holds exactly
		g := int64(1<<53 + 1)
		t.Spec.TerminationGracePeriodSeconds = &g
	}
	t.Spec.Containers = []v1.Container{c}
	return t
}

func claimTemplates(n int, withLabels bool) []v1.PersistentVolumeClaim {
	var out []v1.PersistentVolumeClaim
	for i := 0; i < n; i++ {
		c := v1.PersistentVolumeClaim{}
		c.Name = fmt.Sprintf("vol%d", i)
		if withLabels && i == 0 {
			// an unusual but admitted input: a template that names a namespace of its
			// own; claims must still be created in the set's namespace
			c.Namespace = "staging"
		}
		if withLabels && i%2 == 0 {
			c.Labels = map[string]string{"claim": c.Name}
		}
		c.Spec.AccessModes = []v1.PersistentVolumeAccessMode{v1.ReadWriteOnce}
		c.Spec.Resources.Requests = v1.ResourceList{v1.ResourceStorage: resource.MustParse("1Gi")}
		out = append(out, c)
	}
	return out
}

// canonJSON renders v as JSON with sorted keys; numbers keep their exact digits
// (a decode into float64 would silently equate integers above 2^53).
func canonJSON(v any) string {
	b, err := json.Marshal(v)
	if err != nil {
		panic(err)
	}
	dec := json.NewDecoder(bytes.NewReader(b))
	dec.UseNumber()
	var x any
	if err := dec.Decode(&x); err != nil {
		panic(err)
	}
	b, _ = json.Marshal(x)
	return string(b)
}

// RefPatch is the reference encoder of revision data: the JSON of
// spec.template with "$patch":"replace" inside {"spec":{"template":...}},
// keys sorted (what the upstream StatefulSet controller records).
func RefPatch(t *v1.PodTemplateSpec) []byte {
	b, err := json.Marshal(t)
	if err != nil {
		panic(err)
	}
	var m map[string]any
	if err := json.Unmarshal(b, &m); err != nil {
		panic(err)
	}
	m["$patch"] = "replace"
	out, err := json.Marshal(map[string]any{"spec": map[string]any{"template": m}})
	if err != nil {
		panic(err)
	}
	return out
}

// RevTemplate decodes the template recorded in a revision; ok is false if the
// data has another shape.
func RevTemplate(rev *appsv1.ControllerRevision) (string, bool) {
	var d struct {
		Spec struct {
			Template map[string]any `json:"template"`
		} `json:"spec"`
	}
	if err := json.Unmarshal(rev.Data.Raw, &d); err != nil || d.Spec.Template == nil {
		return "", false
	}
	delete(d.Spec.Template, "$patch")
	b, err := json.Marshal(d.Spec.Template)
	if err != nil {
		return "", false
	}
	var t v1.PodTemplateSpec
	if err := json.Unmarshal(b, &t); err != nil {
		return "", false
	}
	return canonJSON(&t), true
}

func templateContent(t *v1.PodTemplateSpec) string { return canonJSON(t) }

// ---- object builders (what users / other controllers put into the cluster) ----------

func boolp(b bool) *bool    { return &b }
func int32p(i int32) *int32 { return &i }

func ownerRefFor(apiVersion, kind, name string, uid types.UID) metav1.OwnerReference {
	return metav1.OwnerReference{APIVersion: apiVersion, Kind: kind, Name: name, UID: uid, Controller: boolp(true), BlockOwnerDeletion: boolp(true)}
}

// ModelPod builds the pod ordinal i of set as the specification describes it
// (used for injected populations; the oracle for C06 checks the same fields on
// pods the controller creates).
func ModelPod(set *asv1.StatefulSet, tmpl *v1.PodTemplateSpec, ord int32, revName string) *v1.Pod {
	p := &v1.Pod{}
	p.Namespace = set.Namespace
	p.Name = fmt.Sprintf("%s-%d", set.Name, ord)
	p.Labels = map[string]string{}
	for k, x := range tmpl.Labels {
		p.Labels[k] = x
	}
	p.Labels[lblPodName] = p.Name
	if revName != "" {
		p.Labels[lblRevision] = revName
	}
	if len(tmpl.Annotations) > 0 {
		p.Annotations = map[string]string{}
		for k, x := range tmpl.Annotations {
			p.Annotations[k] = x
		}
	}
	p.Spec = *tmpl.Spec.DeepCopy()
	p.Spec.Hostname = p.Name
	p.Spec.Subdomain = set.Spec.ServiceName
	var vols []v1.Volume
	for _, c := range set.Spec.VolumeClaimTemplates {
		vols = append(vols, v1.Volume{Name: c.Name, VolumeSource: v1.VolumeSource{PersistentVolumeClaim: &v1.PersistentVolumeClaimVolumeSource{ClaimName: fmt.Sprintf("%s-%s-%d", c.Name, set.Name, ord)}}})
	}
	for _, vol := range tmpl.Spec.Volumes {
		dup := false
		for _, c := range set.Spec.VolumeClaimTemplates {
			if c.Name == vol.Name {
				dup = true
			}
		}
		if !dup {
			vols = append(vols, vol)
		}
	}
	p.Spec.Volumes = vols
	return p
}

func sortedOrdinals(m map[int32]bool) []int32 {
	out := make([]int32, 0, len(m))
	for k := range m {
		out = append(out, k)
	}
	sort.Slice(out, func(i, j int) bool { return out[i] < out[j] })
	return out
}

// floatRounded re-encodes canonical JSON through float64 numbers (what a decode
// into map[string]interface{} does to integers above 2^53).
func floatRounded(j string) string {
	var x any
	if err := json.Unmarshal([]byte(j), &x); err != nil {
		return j
	}
	b, _ := json.Marshal(x)
	return string(b)
}

// sameTemplate: two template contents identify the same revision content. The
// revision encoding (shared with upstream) rounds integers above 2^53 through
// float64, so identification tolerates exactly that; exactness is judged
// separately by C08.update-revision-mismatch (known finding K2).
func sameTemplate(a, b string) bool { return a == b || floatRounded(a) == floatRounded(b) }
