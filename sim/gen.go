package sim

// Seeded generation of run configurations and schedules (swarm style). The
// generator may look at the simulated state to bias choices towards applicable
// steps; what it emits is plain data, and replay never calls it.

import (
	"fmt"
	"sort"

	v1 "k8s.io/api/core/v1"

	asv1 "github.com/pingcap/advanced-statefulset/client/apis/apps/v1"
)

// Profile shapes configuration and schedule generation for one property.
type Profile struct {
	Name string
	// Tweak adjusts a generated configuration.
	Tweak func(r *PRNG, c *Config)
	// Prefix returns population steps executed before chaos.
	Prefix func(r *PRNG, c *Config) []Step
	// Tail returns steps executed after chaos (they may depend on the state reached).
	Tail func(r *PRNG, s *Sim) []Step
}

var slotChoices = []string{"[]", "[0]", "[1]", "[0,2]", "[1,2]", "[3]", "[5]", "[0,1,2]", "[2,4]", "[7,9]", "[1,1,2]"}

// GenConfig draws a run configuration.
func GenConfig(r *PRNG, profile string) *Config {
	c := &Config{Profile: profile}
	nsets := 1
	if r.Chance(0.3) {
		nsets = 2
	}
	if r.Chance(0.08) {
		nsets = 3
	}
	overlap := r.Chance(0.25)
	for i := 0; i < nsets; i++ {
		sc := SetCfg{Name: []string{"web", "db", "kv"}[i], Defaulted: true}
		sc.Labels = map[string]string{"app": sc.Name}
		if overlap {
			sc.Labels = map[string]string{"app": "shared"}
		}
		if r.Chance(0.5) {
			sc.Policy = "Parallel"
		} else {
			sc.Policy = "OrderedReady"
		}
		if r.Chance(0.25) {
			sc.Strategy = "OnDelete"
		} else {
			sc.Strategy = "RollingUpdate"
			sc.HasRU = true
			p := int32(0)
			switch r.Intn(5) {
			case 0:
				p = int32(r.Intn(4))
			case 1:
				p = int32(r.Range(3, 8))
			}
			sc.Partition = &p
		}
		sc.Replicas = int32(r.Intn(5))
		if r.Chance(0.15) {
			sc.Replicas = int32(r.Range(5, 6))
		}
		if r.Chance(0.5) {
			sl := slotChoices[r.Intn(len(slotChoices))]
			sc.Slots = &sl
		}
		if r.Chance(0.35) {
			sc.Claims = 1
			if r.Chance(0.3) {
				sc.Claims = r.Range(2, 3)
			}
			sc.ClaimLabels = r.Chance(0.5)
		}
		sc.HistoryLimit = int32(r.Intn(4))
		if r.Chance(0.2) {
			sc.HistoryLimit = 10
		}
		sc.Template = r.Intn(3)
		sc.ExprSelector = r.Chance(0.1)
		c.Sets = append(c.Sets, sc)
	}
	c.Workers = 1 + r.Intn(3)
	c.Graceful = r.Chance(0.6)
	c.NoRotate = r.Chance(0.3)
	switch r.Intn(4) {
	case 0:
		c.Dialect = "none"
	default:
		c.Dialect = "truthful"
	}
	c.FaultPct = []int{0, 5, 10, 25}[r.Intn(4)]
	c.Chaos = r.Range(20, 150)
	c.Quiesce = true
	c.Liveness = true
	c.Weights = map[string]int{
		"worker": 30, "release": 80, "deliver": 50, "deliverall": 6, "relist": 2, "resync": 1, "advance": 6, "crash": 2,
		"kube": 40, "gc": 8,
		"replicas": 4, "slots": 3, "scalein": 4, "scaleout": 3, "template": 4, "partition": 2, "strategy": 1, "pause": 1,
		"touch": 2, "histlimit": 1, "slotadd": 1, "resubmit": 1, "prel": 4,
		"podrm": 2, "podlabel": 1, "podorphan": 1, "mkpod": 2, "delset": 0, "mkset": 1, "mkrev": 0,
		"pvcterm": 1, "deliverb": 8,
	}
	// swarm: switch off a random subset of step kinds
	for _, k := range sortedKeys(c.Weights) {
		if k == "worker" || k == "release" || k == "deliver" || k == "kube" {
			continue
		}
		if r.Chance(0.3) {
			c.Weights[k] = 0
		}
	}
	return c
}

// GenPrefix draws the population steps: sets, an arbitrary pod population and
// the boot of the controller.
func GenPrefix(r *PRNG, c *Config) []Step {
	var out []Step
	popMode := r.Intn(3) // 0 empty, 1 healthy, 2 arbitrary
	for i := range c.Sets {
		out = append(out, Step{K: "mkset", A: i})
	}
	for i, sc := range c.Sets {
		slots := map[int32]bool{}
		if sc.Slots != nil {
			slots = ModelSlots(map[string]string{annSlots: *sc.Slots})
		}
		switch popMode {
		case 1:
			for _, o := range Desired(sc.Replicas, slots) {
				out = append(out, Step{K: "mkpod", A: i, B: int(o), C: ownThis | 3<<2, D: sc.Template})
			}
		case 2:
			n := r.Intn(8)
			for j := 0; j < n; j++ {
				ord := r.Intn(8)
				owner := []int{ownThis, ownThis, ownThis, ownNone, ownNone, ownStaleUID, ownOtherKind}[r.Intn(7)]
				phase := []int{0, 1, 2, 3, 3, 3, 4, 5}[r.Intn(8)]
				term := 0
				if r.Chance(0.15) {
					term = 1
				}
				nomatch := 0
				if r.Chance(0.1) {
					nomatch = 1
				}
				revmode := []int{0, 0, 0, 2, 3}[r.Intn(5)]
				tv := sc.Template
				if r.Chance(0.3) {
					tv = r.Intn(3)
				}
				out = append(out, Step{K: "mkpod", A: i, B: ord, C: owner | phase<<2 | term<<5 | nomatch<<6 | revmode<<7, D: tv})
			}
		}
	}
	if r.Chance(0.12) {
		out = append(out, Step{K: "mktwin", A: 0})
	}
	out = append(out, Step{K: "boot"})
	return out
}

// Gen draws the next chaos step, looking at the state for applicability.
func (s *Sim) Gen(r *PRNG) Step {
	w := s.Cfg.Weights
	type cand struct {
		k string
		w int
	}
	var cs []cand
	total := 0
	add := func(k string, ok bool) {
		if ok && w[k] > 0 {
			cs = append(cs, cand{k, w[k]})
			total += w[k]
		}
	}
	parked := len(s.ParkedWorkers()) > 0
	qlen := 0
	if s.inc != nil {
		qlen = s.inc.queue.Len()
	}
	pods := len(s.Store.tables[KPod]) > 0
	sets := len(s.Store.tables[KSet]) > 0
	lag := s.pendingTotal() > 0
	procParked := false
	for _, p := range s.procs {
		if !p.done && p.pending != nil {
			procParked = true
		}
	}
	for _, k := range sortedKeys(w) {
		switch k {
		case "worker":
			add(k, qlen > 0)
		case "release":
			add(k, parked)
		case "deliver", "deliverall", "deliverb":
			add(k, lag)
		case "kube", "podrm", "podlabel", "podorphan", "podown":
			add(k, pods)
		case "pvcterm", "pvcgap":
			add(k, len(s.Store.tables[KPVC]) > 0)
		case "prel":
			add(k, procParked)
		case "replicas", "slots", "xslots", "scalein", "scaleout", "template", "partition", "strategy", "pause", "touch", "histlimit", "slotadd", "resubmit", "delset", "policy", "claimtmpl":
			add(k, sets)
		default:
			add(k, true)
		}
	}
	if total == 0 {
		return Step{K: "advance", A: 1000}
	}
	x := r.Intn(total)
	k := ""
	for _, c := range cs {
		if x < c.w {
			k = c.k
			break
		}
		x -= c.w
	}
	st := Step{K: k}
	nsets := len(s.Cfg.Sets)
	switch k {
	case "release", "prel":
		st.A = r.Intn(4)
		pct := s.Cfg.FaultPct
		if k == "release" && pct > 0 {
			// bias: writes whose failure leaves the most in-flight state (status
			// writes, pod deletes, revision writes) and the uncached read that guards
			// adoptions get faults three times as often
			if ws := s.ParkedWorkers(); len(ws) > 0 {
				c := ws[st.A%len(ws)].pending
				if c.Sub == "status" || (c.Kind == KPod && c.Verb == "delete") || (c.Kind == KRev && c.IsWrite()) || (c.Kind == KSet && c.Verb == "get") {
					pct *= 3
				}
			}
		}
		if s.Cfg.Profile == "rollfail" && k == "release" {
			// the scenario is about the pod writes of the replacing reconcile: faults
			// concentrate there, the reads around them mostly succeed
			pct = 4
			if ws := s.ParkedWorkers(); len(ws) > 0 {
				if c := ws[st.A%len(ws)].pending; c.Kind == KPod && c.IsWrite() {
					pct = 55
				}
			}
		}
		if s.Cfg.FaultOnlyStatus && k == "release" {
			pct = 0
			if ws := s.ParkedWorkers(); len(ws) > 0 && ws[st.A%len(ws)].pending.Sub == "status" {
				pct = 50
			}
		}
		if r.Intn(100) < pct {
			st.B = s.genFault(r)
			st.C = r.Intn(4)
		}
	case "advance":
		st.A = []int{1, 10, 100, 1000, 10000, 1000000}[r.Intn(6)]
		if s.Cfg.Profile == "streak" || s.Cfg.Profile == "statusstreak" {
			st.A = []int{1000, 100000, 1000000}[r.Intn(3)]
		}
	case "crash":
		st.A = r.Intn(2)
	case "deliver", "relist", "resync", "deliverb":
		st.A = r.Intn(3)
		if r.Chance(0.5) {
			st.A = 0 // pods are the busiest kind
		}
		if k == "deliverb" {
			st.B = r.Intn(3)
		}
	case "kube":
		st.A = r.Intn(16)
		st.B = []int{0, 0, 0, 0, 1, 2, 3, 4, 5, 5, 5, 6}[r.Intn(12)]
		if s.Cfg.KubeProgressOnly {
			st.B = []int{0, 0, 5, 5, 6}[r.Intn(5)]
		}
	case "replicas":
		st.A, st.B = r.Intn(nsets), r.Intn(6)
		if s.Cfg.Profile == "c01" {
			st.B = r.Intn(9)
		}
	case "slots":
		st.A = r.Intn(nsets)
		if r.Chance(0.15) {
			st.C = 1
		} else {
			st.S = slotChoices[r.Intn(len(slotChoices))]
		}
	case "xslots":
		st.K = "slots"
		st.A = r.Intn(nsets)
		st.S = exoticSlots[r.Intn(len(exoticSlots))]
	case "slotadd":
		st.A, st.B = r.Intn(nsets), r.Intn(7)
	case "scalein", "scaleout":
		st.A, st.B = r.Intn(nsets), r.Intn(8)
	case "template":
		st.A, st.B = r.Intn(nsets), r.Intn(4)
		if r.Chance(0.2) {
			st.C = 1
		}
		if s.Cfg.Profile == "bigint" && r.Chance(0.3) {
			st.B = 11 // template with an integer above 2^53
		}
	case "partition":
		st.A, st.B = r.Intn(nsets), r.Intn(7)
	case "strategy", "policy":
		st.A, st.B = r.Intn(nsets), r.Intn(2)
	case "pause":
		st.A, st.B = r.Intn(nsets), r.Intn(2)
	case "touch":
		st.A, st.B, st.C = r.Intn(nsets), r.Intn(100), r.Intn(2)
	case "claimtmpl":
		st.A, st.B = r.Intn(nsets), r.Intn(3)
	case "histlimit":
		st.A, st.B = r.Intn(nsets), r.Intn(4)
	case "resubmit", "mkset", "upgrade":
		st.A = r.Intn(nsets)
	case "bctl":
		st.A = r.Intn(2)
	case "delset":
		st.A, st.B = r.Intn(nsets), r.Intn(3)
	case "podrm", "podlabel", "podorphan", "pvcterm", "pvcgap":
		st.A = r.Intn(16)
	case "podown":
		// B: owner class in the low two bits, bit 2 = reference written with another
		// served version of the API group
		st.A, st.B = r.Intn(16), r.Intn(4)|(r.Intn(4)/3)<<2
	case "mkpod":
		st.A, st.B = r.Intn(nsets), r.Intn(8)
		st.C = []int{ownThis, ownNone, ownNone, ownStaleUID, ownOtherKind}[r.Intn(5)] | r.Intn(6)<<2 | r.Intn(2)*r.Intn(2)<<5 | (r.Intn(8)/7)<<6 | []int{0, 0, 2, 3}[r.Intn(4)]<<7
		st.D = r.Intn(3)
		if (s.Cfg.Profile == "parallel" || s.Cfg.Profile == "ordered") && r.Chance(0.35) {
			// a pod of the set that has failed (or succeeded) while already terminating
			st.C = ownThis | []int{4, 5}[r.Intn(2)]<<2 | 1<<5
			st.B = r.Intn(5)
		}
		if s.Cfg.Profile == "claimsrepair" && r.Chance(0.6) {
			st.C = []int{ownNone, ownThis}[r.Intn(2)] | 3<<2 | 1<<9
		}
		if s.Cfg.Profile == "flags" && r.Chance(0.4) {
			// an owned pod whose labels stopped matching
			st.C = ownThis | 3<<2 | 1<<6
		}
		if (s.Cfg.Profile == "ordered" || s.Cfg.Profile == "slots" || s.Cfg.Profile == "scalein") && r.Chance(0.2) {
			// two-digit ordinals next to one-digit ones (names do not sort like numbers)
			st.B = 9 + r.Intn(4)
			st.C = ownThis | 3<<2
		}
		if (s.Cfg.Profile == "rolling" || s.Cfg.Profile == "history") && r.Chance(0.12) {
			// a pod of the set whose ordinal does not fit an int32: claimed and counted,
			// never managed; it stays at whatever revision it was made with
			st.C = []int{ownThis, ownNone}[r.Intn(2)] | 3<<2
			st.S = sprintf("%s-4294967296", s.Cfg.Sets[st.A].Name)
			st.D = r.Intn(4)
		}
		if (s.Cfg.Profile == "ownership" || s.Cfg.Profile == "claimsrepair" || s.Cfg.Profile == "lying" || s.Cfg.Profile == "ordered" || s.Cfg.Profile == "faults" || s.Cfg.Profile == "claims" || s.Cfg.Profile == "rollfault" || s.Cfg.Profile == "statusfault") && r.Chance(0.3) {
			st.C = st.C&^3 | []int{ownNone, ownThis}[r.Intn(2)] | 1<<12
			st.C = st.C&^(7<<2) | 3<<2
		}
		if (s.Cfg.Profile == "events" || s.Cfg.Profile == "ownership") && r.Chance(0.15) {
			// controller reference written through another served version of the group
			st.C = st.C&^3 | ownThis | 1<<10
		}
	case "mkrev":
		// C: owner(2) | label mode(2)<<2 | reference written with the other served version<<4
		st.A, st.B, st.C, st.D = r.Intn(nsets), r.Intn(4), r.Intn(16)|(r.Intn(5)/4)<<4|(r.Intn(6)/5)<<5, r.Intn(6)
	}
	return st
}

func (s *Sim) genFault(r *PRNG) int {
	if s.Cfg.Dialect == "lying" && r.Chance(0.5) {
		return []int{FLieConflict, FLieNotFound, FLieExists, FLieInvalid}[r.Intn(4)]
	}
	return []int{FBefore500, FBeforeTimeout, FBefore429, FAfter500, FAfterTimeout, FRace, FRace2}[r.Intn(7)]
}

// describeState is used in samples.
func (s *Sim) describeState() []string {
	var out []string
	for _, ky := range s.Store.Keys(KSet) {
		set := s.Store.tables[KSet][ky].(*asv1.StatefulSet)
		out = append(out, fmt.Sprintf("set %s replicas=%d slots=%q status=%+v", set.Name, specReplicas(set), set.Annotations[annSlots], set.Status))
	}
	var pods []string
	for _, ky := range s.Store.Keys(KPod) {
		p := s.Store.tables[KPod][ky].(*v1.Pod)
		pods = append(pods, fmt.Sprintf("%s:%s/%v/%s", p.Name, p.Status.Phase, podReady(p), podRevision(p)))
	}
	sort.Strings(pods)
	return append(out, pods...)
}
