package sim

// Per-property profiles: distributions of configurations, populations and actor
// weights (DESIGN.md §5). All oracles are always evaluated; a check reports only
// its own property.

func init() {
	profiles["base"] = &Profile{Name: "base", Tail: func(r *PRNG, s *Sim) []Step {
		// a user edit arrives while a worker is in the middle of the set's reconcile and
		// a second worker is idle: the key must not be handed out twice (the queue keeps
		// it back until the first pass is done)
		if s.Cfg.Workers < 2 || !r.Chance(0.5) {
			return nil
		}
		_, sc := s.getSet(0)
		if sc == nil {
			return nil
		}
		return []Step{{K: "pause", A: 0, B: 0}, {K: "settle"}, {K: "touch", A: 0}, {K: "deliverall"}, {K: "worker"},
			{K: "template", A: 0, B: (sc.Template + 1 + r.Intn(3)) % 4}, {K: "deliverall"}, {K: "worker"}, {K: "relto", A: 1, B: 9},
			{K: "deliverall"}, {K: "finish"}}
	}}

	// fault-free: separates ordinary bugs from fault-handling bugs
	profiles["nofault"] = &Profile{Name: "nofault", Tweak: func(r *PRNG, c *Config) {
		c.Dialect = "none"
		c.FaultPct = 0
		c.Weights["crash"] = 0
	}, Tail: func(r *PRNG, s *Sim) []Step {
		// the last thing that happens before the edits stop is a pod, freshly
		// re-created and still Pending, being rejected by its node: its failure is
		// the only event left to wake the set
		x := r.Intn(10)
		if x >= 7 {
			return nil
		}
		a := r.Intn(8)
		if x >= 4 {
			// or: a pod is deleted gracefully, the controller sees it terminating and
			// waits; the pod watch breaks, the pod is gone when it comes back: the relist
			// reports it with a tombstone that carries the stale (terminating) copy, and
			// that tombstone is the only wake-up there will be
			return []Step{{K: "settle"}, {K: "podrm", A: a}, {K: "deliverall"}, {K: "worker"}, {K: "finish"}, {K: "deliverall"}, {K: "worker"}, {K: "finish"},
				{K: "kube", A: a, B: 5}, {K: "relist", A: 0}}
		}
		return []Step{{K: "settle"}, {K: "podrm", A: a}, {K: "kube", A: a, B: 5}, {K: "settle", A: 1}, {K: "kube", A: a, B: 3}}
	}}

	// slots: interior-slot edits, stale caches
	profiles["slots"] = &Profile{Name: "slots", Tweak: func(r *PRNG, c *Config) {
		for i := range c.Sets {
			sl := slotChoices[r.Intn(len(slotChoices))]
			c.Sets[i].Slots = &sl
			if c.Sets[i].Replicas < 2 {
				c.Sets[i].Replicas = int32(r.Range(2, 5))
			}
		}
		c.Weights["scalein"] = 12
		c.Weights["scaleout"] = 8
		c.Weights["slots"] = 8
		c.Weights["slotadd"] = 4
		c.Weights["replicas"] = 6
		c.Weights["deliver"] = 30
	}}

	// health mix for the ordered policy
	profiles["ordered"] = &Profile{Name: "ordered", Tweak: func(r *PRNG, c *Config) {
		for i := range c.Sets {
			c.Sets[i].Policy = "OrderedReady"
			if r.Chance(0.6) {
				sl := slotChoices[r.Intn(len(slotChoices))]
				c.Sets[i].Slots = &sl
			}
			c.Sets[i].Replicas = int32(r.Range(2, 6))
		}
		c.Weights["kube"] = 70
		c.Weights["scalein"] = 8
		c.Weights["mkpod"] = 5
		c.Weights["podrm"] = 4
		c.Weights["template"] = 8
		if r.Chance(0.6) {
			c.Graceful = true // terminating pods linger: scale-in and rollout overlap
		}
		if r.Chance(0.35) {
			// two sets reconciled by two workers at once: nothing of one set's pass may
			// leak into the other's
			if len(c.Sets) == 1 {
				sc := c.Sets[0]
				sc.Name = "db"
				sc.Labels = map[string]string{"app": "db"}
				c.Sets = append(c.Sets, sc)
			}
			if c.Workers < 2 {
				c.Workers = 2
			}
			c.Weights["worker"] = 45
		}
	}, Tail: func(r *PRNG, s *Sim) []Step {
		// two workers, two sets, both with a pod to scale in; the first worker is parked
		// in the middle of its pass (at the identity repair of a pod that lost its
		// pod-name label) while the second runs a whole pass of the other set
		if len(s.Cfg.Sets) < 2 || s.Cfg.Workers < 2 || !r.Chance(0.7) {
			// or: a scale-in and a template change arrive together; the pod to scale in
			// lingers terminating (graceful deletion) while desired pods are outdated:
			// scaling comes first, nothing may be taken down for the update yet
			if !r.Chance(0.5) {
				return nil
			}
			set, sc := s.getSet(0)
			if set == nil || set.DeletionTimestamp != nil {
				return nil
			}
			d := Desired(specReplicas(set), ModelSlots(set.Annotations))
			if len(d) < 2 {
				return nil
			}
			return []Step{{K: "pause", A: 0, B: 0}, {K: "settle"}, {K: "scalein", A: 0, B: len(d) - 1}, {K: "template", A: 0, B: (sc.Template + 1 + r.Intn(3)) % 4},
				{K: "deliverall"}, {K: "worker"}, {K: "finish"}, {K: "deliverall"}, {K: "worker"}, {K: "finish"}, {K: "deliverall"}, {K: "worker"}, {K: "finish"}}
		}
		out := []Step{{K: "settle"}}
		for i := 0; i < 2; i++ {
			set, _ := s.getSet(i)
			if set == nil || set.DeletionTimestamp != nil || set.Annotations[annPaused] == "true" {
				return nil
			}
			d := Desired(specReplicas(set), ModelSlots(set.Annotations))
			if len(d) < 2 {
				return nil
			}
			out = append(out, Step{K: "podnoid", S: sprintf("%s-%d", set.Name, d[0])}, Step{K: "scalein", A: i, B: len(d) - 1})
		}
		return append(out, Step{K: "deliverall"}, Step{K: "worker"}, Step{K: "worker"}, Step{K: "relto", A: 0, B: 1}, Step{K: "relto", A: 1, B: 9}, Step{K: "finish"})
	}}

	profiles["parallel"] = &Profile{Name: "parallel", Tweak: func(r *PRNG, c *Config) {
		for i := range c.Sets {
			c.Sets[i].Policy = "Parallel"
			c.Sets[i].Replicas = int32(r.Range(2, 6))
		}
		c.Weights["kube"] = 70
		c.Weights["scalein"] = 8
		c.Weights["replicas"] = 8
		c.Weights["mkpod"] = 5
		c.Weights["pvcterm"] = 3
		c.Weights["pause"] = 4
		if r.Chance(0.4) {
			for i := range c.Sets {
				if c.Sets[i].Claims == 0 {
					c.Sets[i].Claims = 1
				}
			}
		}
	}, Tail: func(r *PRNG, s *Sim) []Step {
		// a pause edit reaches the cache in the middle of a pass that has two pods to
		// scale in: the pass was decided before the pause and completes as decided
		if !r.Chance(0.35) {
			return nil
		}
		return []Step{{K: "pause", A: 0, B: 0}, {K: "replicas", A: 0, B: 3 + r.Intn(2)}, {K: "settle"},
			{K: "scalein", A: 0, B: r.Intn(4)}, {K: "scalein", A: 0, B: r.Intn(4)}, {K: "deliverall"}, {K: "worker"},
			{K: "relto", A: 0, B: 4}, {K: "pause", A: 0, B: 1}, {K: "deliver", A: 1}, {K: "deliver", A: 1}, {K: "finish"}}
	}}

	// claims: templates, claim cache lag, lister faults
	profiles["claims"] = &Profile{Name: "claims", Tweak: func(r *PRNG, c *Config) {
		for i := range c.Sets {
			c.Sets[i].Claims = r.Range(1, 3)
			c.Sets[i].ClaimLabels = r.Chance(0.5)
			if c.Sets[i].Replicas < 1 {
				c.Sets[i].Replicas = int32(r.Range(1, 4))
			}
		}
		if r.Chance(0.3) {
			// set names the API admits (DNS subdomains) that are not DNS labels, or so
			// long that <set>-<ordinal> exceeds 63 characters (the name itself must stay
			// within 63: it is used as a label value in the revision listing, and the
			// API rejects longer selector values, so such a set is never reconciled)
			c.Sets[0].Name = []string{"db.prod", "a23456789b23456789c23456789d23456789e23456789f23456789g2345678"}[r.Intn(2)]
		}
		c.Weights["listerfault"] = 4
		c.Weights["claimtmpl"] = 3
		c.Weights["pvcgap"] = 4
		c.Weights["relist"] = 5
		c.Weights["pvcterm"] = 3
		c.Weights["scalein"] = 8
		c.Weights["scaleout"] = 8
		c.Weights["replicas"] = 6
		c.Weights["podrm"] = 4
		if c.FaultPct < 10 {
			c.FaultPct = 10
		}
		if c.Dialect == "none" && r.Chance(0.7) {
			c.Dialect = "truthful"
		}
	}}

	// rolling updates: several templates in flight, partitions
	profiles["rolling"] = &Profile{Name: "rolling", Tweak: func(r *PRNG, c *Config) {
		for i := range c.Sets {
			sc := &c.Sets[i]
			if r.Chance(0.8) {
				sc.Strategy = "RollingUpdate"
				sc.HasRU = true
				p := int32([]int{0, 0, 1, 2, 3, 5, 8}[r.Intn(7)])
				sc.Partition = &p
			} else {
				sc.Strategy = "OnDelete"
				sc.HasRU = false
				sc.Partition = nil
			}
			sc.Replicas = int32(r.Range(2, 5))
		}
		c.Weights["template"] = 14
		c.Weights["partition"] = 5
		c.Weights["kube"] = 70
		c.Weights["touch"] = 3
		c.Weights["histlimit"] = 2
	}}

	// revision histories: flips, rollbacks, non-template edits, limits
	profiles["history"] = &Profile{Name: "history", Tweak: func(r *PRNG, c *Config) {
		if r.Chance(0.3) {
			if len(c.Sets) == 1 {
				sc := c.Sets[0]
				sc.Name = "db"
				sc.Labels = map[string]string{"app": "db"}
				c.Sets = append(c.Sets, sc)
			}
			if c.Workers < 2 {
				c.Workers = 2
			}
		}
		for i := range c.Sets {
			sc := &c.Sets[i]
			sc.HistoryLimit = int32(r.Intn(4))
			sc.Replicas = int32(r.Range(1, 4))
			if r.Chance(0.5) {
				p := int32(r.Intn(4))
				sc.Strategy, sc.HasRU, sc.Partition = "RollingUpdate", true, &p
			}
		}
		c.Weights["template"] = 20
		c.Weights["touch"] = 6
		c.Weights["replicas"] = 5
		c.Weights["scalein"] = 4
		c.Weights["pause"] = 1
		c.Weights["resubmit"] = 3
		c.Weights["prel"] = 8
		c.Weights["mkrev"] = 3
		c.Weights["histlimit"] = 3
		c.Weights["kube"] = 60
	}, Tail: func(r *PRNG, s *Sim) []Step {
		// two workers trimming the histories of two sets at once: the first is parked
		// between two of its revision deletes while the second runs a whole pass
		if len(s.Cfg.Sets) < 2 || s.Cfg.Workers < 2 || !r.Chance(0.6) {
			// or: history limit 0 and a roll-out whose every reconcile dies right after
			// its status write (before it gets to trim): nothing in memory survives, the
			// first undisturbed reconcile of the next process has to trim
			if !r.Chance(0.5) {
				return nil
			}
			_, sc := s.getSet(0)
			if sc == nil {
				return nil
			}
			out := []Step{{K: "pause", A: 0, B: 0}, {K: "settle"}, {K: "histlimit", A: 0, B: 0}, {K: "settle"},
				{K: "template", A: 0, B: (sc.Template + 1 + r.Intn(3)) % 4}, {K: "deliverall"}}
			for k := 0; k < 8; k++ {
				out = append(out, Step{K: "worker"}, Step{K: "relto", A: 0, B: 2}, Step{K: "release", A: 0}, Step{K: "crash", A: 0},
					Step{K: "settle", A: 2})
			}
			return out
		}
		var out []Step
		// three template flips per set (unused revisions), then the limits drop
		for k := 0; k < 3; k++ {
			out = append(out, Step{K: "template", A: 0, B: (k + 1) % 4}, Step{K: "template", A: 1, B: (k + 2) % 4}, Step{K: "settle"})
		}
		return append(out, Step{K: "histlimit", A: 0, B: 0}, Step{K: "histlimit", A: 1, B: 1}, Step{K: "deliverall"},
			Step{K: "worker"}, Step{K: "worker"}, Step{K: "relto", A: 0, B: 5}, Step{K: "release", A: 0},
			Step{K: "relto", A: 1, B: 9}, Step{K: "finish"})
	}}

	// ownership: overlapping selectors, foreign / orphan / stale-owner objects, name shapes
	profiles["ownership"] = &Profile{Name: "ownership", Tweak: func(r *PRNG, c *Config) {
		if len(c.Sets) == 1 && r.Chance(0.6) {
			sc := c.Sets[0]
			sc.Name = "db"
			c.Sets = append(c.Sets, sc)
		}
		if r.Chance(0.6) {
			for i := range c.Sets {
				c.Sets[i].Labels = map[string]string{"app": "shared"}
			}
		}
		c.Workers = r.Range(1, 3)
		c.Weights["mkpod"] = 14
		c.Weights["podlabel"] = 6
		c.Weights["podorphan"] = 6
		c.Weights["podown"] = 4
		c.Weights["mkrev"] = 5
		c.Weights["delset"] = 2
		c.Weights["mkset"] = 3
		c.Weights["gc"] = 10
		c.Liveness = false // foreign squatters and stale owners are outside C02's premise
	}, Prefix: func(r *PRNG, c *Config) []Step {
		out := GenPrefix(r, c)
		boot := out[len(out)-1]
		out = out[:len(out)-1]
		shapes := []string{"%s-x", "%s", "%s-1-2", "other-1", "%s-4294967296", "%s-99999999999999999999", "2048", "%s--1"}
		for i := range c.Sets {
			for j := 0; j < r.Intn(3); j++ {
				name := shapes[r.Intn(len(shapes))]
				if containsStr(name, "%s") {
					name = sprintf(name, c.Sets[i].Name)
				}
				out = append(out, Step{K: "mkpod", A: i, B: r.Intn(5), C: []int{ownThis, ownNone, ownStaleUID, ownOtherKind}[r.Intn(4)] | 3<<2, D: c.Sets[i].Template, S: name})
			}
			for j := 0; j < r.Intn(3); j++ {
				out = append(out, Step{K: "mkrev", A: i, B: r.Intn(4), C: r.Intn(16), D: r.Intn(5)})
			}
		}
		return append(out, boot)
	}}

	// pause / delete flags raised mid-flight
	profiles["flags"] = &Profile{Name: "flags", Tweak: func(r *PRNG, c *Config) {
		c.Weights["pause"] = 8
		c.UnpauseAtQuiesce = true
		c.Weights["delset"] = 3
		c.Weights["mkset"] = 2
		c.Weights["gc"] = 12
		c.Weights["scalein"] = 6
		c.Weights["template"] = 6
		c.Weights["podorphan"] = 4
		c.Weights["podlabel"] = 6
		c.Weights["mkpod"] = 4
		c.Weights["mkrev"] = 2
		for i := range c.Sets {
			if c.Sets[i].Replicas < 2 {
				c.Sets[i].Replicas = int32(r.Range(2, 4))
			}
		}
	}}

	// event shapes for the enqueue oracle
	profiles["events"] = &Profile{Name: "events", Tweak: func(r *PRNG, c *Config) {
		if len(c.Sets) == 1 {
			sc := c.Sets[0]
			sc.Name = "db"
			if r.Chance(0.5) {
				sc.Labels = map[string]string{"app": "db"}
			}
			c.Sets = append(c.Sets, sc)
		}
		c.Weights["mkpod"] = 12
		c.Weights["podlabel"] = 10
		c.Weights["podorphan"] = 8
		c.Weights["podown"] = 8
		c.Weights["podrm"] = 6
		c.Weights["relist"] = 6
		c.Weights["delset"] = 2
		c.Weights["mkset"] = 3
		c.Weights["advance"] = 10
		c.Weights["kube"] = 30
		c.Liveness = false
	}}

	// lying dialect: safety oracles only
	profiles["lying"] = &Profile{Name: "lying", Tweak: func(r *PRNG, c *Config) {
		c.Dialect = "lying"
		c.FaultPct = 25
		c.Liveness = false
	}}

	// heavy truthful faults and crashes, liveness demanded afterwards
	profiles["faults"] = &Profile{Name: "faults", Tweak: func(r *PRNG, c *Config) {
		c.Dialect = "truthful"
		c.FaultPct = []int{10, 25, 40}[r.Intn(3)]
		c.Weights["crash"] = 6
		c.Weights["advance"] = 10
		c.Weights["mkrev"] = 3 // orphan / marker revisions: the adoption and label-sync calls get faults too
	}, Tail: func(r *PRNG, s *Sim) []Step {
		// the last events before everything goes quiet arrive while a reconcile that is
		// the retry of a failed one is in flight: a pod is removed, the reconcile that
		// should replace it fails at its first call, the retry runs part of the way,
		// the kubelet reports on the pods in the meantime, the retry completes
		x := r.Intn(12)
		if x >= 10 {
			return nil
		}
		a := r.Intn(8)
		if x >= 7 {
			// or: a gracefully deleted pod finishes terminating while the pod watch is
			// down; the relist reports it with a tombstone carrying the stale copy
			return []Step{{K: "settle"}, {K: "podrm", A: a}, {K: "deliverall"}, {K: "worker"}, {K: "finish"}, {K: "deliverall"}, {K: "worker"}, {K: "finish"},
				{K: "kube", A: a, B: 5}, {K: "relist", A: 0}}
		}
		if x >= 4 {
			// or: a pod loses its pod-name label; the reconcile that repairs it is
			// parked right before the pod update while the kubelet reports on the pod
			// (the update then conflicts and is retried on the refreshed copy)
			return []Step{{K: "settle"}, {K: "podnoid", A: a}, {K: "deliverall"}, {K: "worker"}, {K: "relto", A: 0, B: 1},
				{K: "kube", A: a, B: 2}, {K: "deliverall"}, {K: "finish"}}
		}
		// the retry (which has nothing to write) is parked at its first call, holding
		// the set as it was; the user scales the set out by one (the last edit of the
		// run); the retry completes on its older snapshot
		return []Step{{K: "settle"}, {K: "touch", A: 0}, {K: "deliverall"},
			{K: "worker"}, {K: "release", A: 0, B: FBefore500}, {K: "advance", A: 1000}, {K: "worker"},
			{K: "scaleout", A: 0, B: 1}, {K: "deliverall"}, {K: "finish"}}
	}}

	// rolling updates (partitions, failed pods, several revisions in flight) with
	// failing calls: partial reconciles of the update path
	profiles["rollfault"] = &Profile{Name: "rollfault", Tweak: func(r *PRNG, c *Config) {
		profiles["rolling"].Tweak(r, c)
		c.Dialect = "truthful"
		c.FaultPct = []int{10, 25, 40}[r.Intn(3)]
		c.Weights["crash"] = 3
		c.Weights["mkpod"] = 5
	}}

	// the documented scale-in edit on a healthy converged set, nothing else disturbing
	profiles["scalein"] = &Profile{Name: "scalein", Tweak: func(r *PRNG, c *Config) {
		c.Sets = c.Sets[:1]
		sc := &c.Sets[0]
		sc.Replicas = int32(r.Range(2, 6))
		sc.Paused = false
		c.Dialect = "none"
		c.FaultPct = 0
		c.ScaleInWatch = true
		c.KubeProgressOnly = true
		c.Weights = map[string]int{"worker": 30, "release": 60, "deliver": 50, "kube": 40, "advance": 2}
		c.Chaos = r.Range(10, 80)
	}, Prefix: func(r *PRNG, c *Config) []Step {
		sc := c.Sets[0]
		out := []Step{{K: "mkset", A: 0}}
		slots := map[int32]bool{}
		if sc.Slots != nil {
			slots = ModelSlots(map[string]string{annSlots: *sc.Slots})
		}
		for _, o := range Desired(sc.Replicas, slots) {
			out = append(out, Step{K: "mkpod", A: 0, B: int(o), C: ownThis | 3<<2, D: sc.Template})
		}
		out = append(out, Step{K: "boot"}, Step{K: "settle"}, Step{K: "scalein", A: 0, B: r.Intn(8)})
		return out
	}}

	// hostile: CRD-admitted but unusual specs next to a well-formed neighbour (C15)
	profiles["hostile"] = &Profile{Name: "hostile", Tweak: func(r *PRNG, c *Config) {
		if len(c.Sets) == 1 {
			sc := c.Sets[0]
			sc.Name = "db"
			sc.Labels = map[string]string{"app": "db"}
			c.Sets = append(c.Sets, sc)
		}
		c.Sets = c.Sets[:2]
		for i := range c.Sets {
			c.Sets[i].Labels = map[string]string{"app": c.Sets[i].Name}
		}
		h := &c.Sets[0]
		h.Hostile = r.Range(1, 14)
		h.Defaulted = r.Chance(0.4)
		if r.Chance(0.4) {
			sl := exoticSlots[r.Intn(len(exoticSlots))]
			h.Slots = &sl
		}
		h.Replicas = int32(r.Intn(5))
		if r.Chance(0.3) {
			h.Claims = 1
		}
		c.Sets[1].Hostile = 0
		c.Sets[1].Defaulted = true
		c.Sets[1].Replicas = int32(r.Range(1, 3))
		c.Weights["mkrev"] = 2
		c.Weights["delset"] = 0
		c.Weights["strategy"] = 0
		c.Weights["partition"] = 0
		c.Weights["policy"] = 0
		c.Weights["resubmit"] = 0
		c.Weights["slots"] = 0
		c.Weights["slotadd"] = 0
		c.Weights["xslots"] = 4
	}, Prefix: func(r *PRNG, c *Config) []Step {
		out := GenPrefix(r, c)
		boot := out[len(out)-1]
		out = out[:len(out)-1]
		// pods whose names parse as <set>-<digits> but overflow int32, label-less pods
		// and names of other shapes the API admits: digits only, a doubled hyphen,
		// a leading number
		for _, name := range []string{"%s-4294967296", "%s-99999999999999999999", "%s-2147483648", "2048", "0", "%s--1", "1-%s"} {
			if r.Chance(0.25) {
				nm := name
				if containsStr(nm, "%s") {
					nm = sprintf(nm, c.Sets[0].Name)
				}
				out = append(out, Step{K: "mkpod", A: 0, B: r.Intn(4), C: []int{ownThis, ownNone}[r.Intn(2)] | 3<<2, D: c.Sets[0].Template, S: nm})
			}
		}
		// the largest ordinal an int32 holds, on a pod that is not (yet) healthy
		if r.Chance(0.3) {
			out = append(out, Step{K: "mkpod", A: r.Intn(2), B: 0, C: []int{ownThis, ownNone}[r.Intn(2)] | r.Intn(3)<<2, D: c.Sets[0].Template, S: sprintf("%s-2147483647", c.Sets[r.Intn(2)].Name)})
		}
		// revisions and pods carrying a non-controller owner reference whose optional
		// "controller" field is absent
		for j := 0; j < r.Intn(3); j++ {
			out = append(out, Step{K: "mkrev", A: 0, B: r.Intn(4), C: r.Intn(16) | 1<<5, D: r.Intn(5)})
		}
		if r.Chance(0.4) {
			out = append(out, Step{K: "mkpod", A: 0, B: r.Intn(4), C: ownNone | 3<<2 | 1<<11, D: c.Sets[0].Template})
		}
		return append(out, boot)
	}, Tail: func(r *PRNG, s *Sim) []Step {
		// the well-formed neighbour is deleted and created again while a reconcile of
		// it is parked before its status write: the delete has reached the cache, the
		// add has not (the write conflicts and the re-read finds nothing)
		if !r.Chance(0.4) {
			return nil
		}
		return []Step{{K: "settle"}, {K: "scaleout", A: 1, B: 0}, {K: "deliverall"}, {K: "worker"}, {K: "relto", A: 0, B: 2},
			{K: "delset", A: 1, B: 0}, {K: "deliver", A: 1}, {K: "deliver", A: 1}, {K: "mkset", A: 1}, {K: "finish"}}
	}}

	// migration from a built-in StatefulSet (C18)
	profiles["migrate"] = &Profile{Name: "migrate", Tweak: func(r *PRNG, c *Config) {
		c.Sets = c.Sets[:1]
		sc := &c.Sets[0]
		sc.Replicas = int32(r.Range(1, 4))
		sc.Slots = nil
		sc.Paused = false
		sc.ExprSelector = false
		sc.HistoryLimit = 10
		if sc.Claims > 1 {
			sc.Claims = 1
		}
		c.KubeProgressOnly = true
		c.Weights = map[string]int{"worker": 30, "release": 70, "deliver": 50, "deliverall": 4, "kube": 10, "gc": 20, "bctl": 4,
			"upgrade": 8, "prel": 40, "advance": 6, "crash": 1, "relist": 1}
		if r.Chance(0.5) {
			c.Weights["crash"] = 0
		}
		c.Chaos = r.Range(30, 160)
	}, Prefix: func(r *PRNG, c *Config) []Step {
		out := []Step{{K: "mkbset", A: 0, B: r.Intn(4) | (r.Intn(5)/4)<<2, C: r.Intn(6), D: r.Intn(1000)}}
		if r.Chance(0.7) {
			out = append(out, Step{K: "boot"})
		}
		if r.Chance(0.5) {
			out = append(out, Step{K: "upgrade", A: 0})
		}
		return out
	}}

	// streak: a long run of failing reconciles of one key (a foreign pod squats on a
	// desired name), with clock advances so that every rate-limited re-add fires
	profiles["streak"] = &Profile{Name: "streak", Tweak: func(r *PRNG, c *Config) {
		c.Sets = c.Sets[:1]
		sc := &c.Sets[0]
		sc.Replicas = int32(r.Range(1, 3))
		sc.Slots = nil
		sc.Paused = false
		sc.Claims = 0
		c.Workers = 1
		c.Dialect = "none"
		c.FaultPct = 0
		c.Weights = map[string]int{"worker": 30, "release": 120, "advance": 30, "deliver": 10, "kube": 4, "touch": 1}
		c.Chaos = r.Range(250, 450)
	}, Prefix: func(r *PRNG, c *Config) []Step {
		return []Step{{K: "mkset", A: 0}, {K: "mkpod", A: 0, B: 0, C: ownOtherKind | 3<<2 | 1<<6, D: c.Sets[0].Template}, {K: "boot"}}
	}}

	// statusstreak: the set's pods are all there and Ready, only the status is to be
	// written, and the status endpoint is down for the whole chaos phase: a long run
	// of failed reconciles of one key with nothing else happening; when the outage
	// ends the retry must still be scheduled
	profiles["statusstreak"] = &Profile{Name: "statusstreak", Tweak: func(r *PRNG, c *Config) {
		profiles["streak"].Tweak(r, c)
		c.StatusOutage = true
		c.Weights = map[string]int{"worker": 30, "release": 120, "advance": 30, "deliver": 10}
	}, Prefix: func(r *PRNG, c *Config) []Step {
		out := []Step{{K: "mkset", A: 0}}
		for o := int32(0); o < c.Sets[0].Replicas; o++ {
			out = append(out, Step{K: "mkpod", A: 0, B: int(o), C: ownThis | 3<<2, D: c.Sets[0].Template})
		}
		return append(out, Step{K: "boot"})
	}}

	// bigint: template edits that include an integer above 2^53 (C08 only; the
	// revision encoding shared with upstream rounds such numbers)
	profiles["bigint"] = &Profile{Name: "bigint", Tweak: func(r *PRNG, c *Config) {
		profiles["history"].Tweak(r, c)
		c.Liveness = false // "at the update revision" is judged by content, which the rounding changes
	}}

	// claimsrepair: orphan pods built without their claim volumes; adoption leads to the
	// storage-repair path of UpdateStatefulPod (the API server forbids the resulting
	// spec change for ever, as upstream, so no liveness is demanded)
	profiles["claimsrepair"] = &Profile{Name: "claimsrepair", Tweak: func(r *PRNG, c *Config) {
		profiles["claims"].Tweak(r, c)
		c.Liveness = false
		c.Weights["mkpod"] = 10
	}}

	// statusfault: only status writes fail (often), little else disturbs the set afterwards
	profiles["statusfault"] = &Profile{Name: "statusfault", Tweak: func(r *PRNG, c *Config) {
		c.Dialect = "truthful"
		c.FaultPct = 1
		c.FaultOnlyStatus = true
		c.Weights["crash"] = 0
		c.Weights["template"] = 1
		c.Weights["replicas"] = 1
		c.Chaos = r.Range(20, 90)
	}}
}
