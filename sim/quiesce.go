package sim

// Deterministic quiesce phase and the liveness / quiescence oracle
// (DESIGN.md §4.4). No choices are made here: it is part of the run but not of
// the schedule.

import (
	"fmt"
	"sort"
	"strings"
	"time"

	appsv1 "k8s.io/api/apps/v1"
	v1 "k8s.io/api/core/v1"
	metav1 "k8s.io/apimachinery/pkg/apis/meta/v1"
	"k8s.io/apimachinery/pkg/labels"

	asv1 "github.com/pingcap/advanced-statefulset/client/apis/apps/v1"
)

// runWorkersToCompletion runs workers round-robin, fault-free, until the queue
// is empty and no worker is in flight. Returns the number of reconciles run.
func (s *Sim) runWorkersToCompletion(budget int) int {
	n := 0
	for {
		progress := false
		for _, w := range s.ParkedWorkers() {
			if w.done || w.pending == nil {
				continue // finished meanwhile (a panic elsewhere restarted the process)
			}
			s.releaseWith(w, FNone, 0)
			progress = true
		}
		if a := s.StartWorker(); a != nil {
			progress = true
			n++
		}
		if !progress {
			return n
		}
		if n > budget {
			return n
		}
	}
}

func (s *Sim) finishProcs() {
	for i := 0; i < 10000; i++ {
		any := false
		for _, p := range s.procs {
			if !p.done && p.pending != nil {
				s.release(p, Decision{})
				any = true
			}
		}
		if !any {
			return
		}
	}
	harnessf("procedures do not finish")
}

// kubeletSettle finishes terminations and makes every other non-terminal pod
// Running and Ready. Returns true if anything changed.
func (s *Sim) kubeletSettle(round int, stuck map[string]int) bool {
	changed := false
	for _, ky := range s.Store.Keys(KPod) {
		p := s.Store.tables[KPod][ky].(*v1.Pod)
		if p.DeletionTimestamp != nil {
			s.Store.Remove(KPod, p.Namespace, p.Name)
			changed = true
			continue
		}
		if podTerminal(p) {
			continue
		}
		if !podRunningReady(p) {
			Mutate(s.Store, KPod, p.Namespace, p.Name, func(o *v1.Pod) bool { setPodPhase(o, 3); return true })
			changed = true
		}
	}
	return changed
}

// janitor removes what C02's premise excludes: Failed/Succeeded pods outside
// the desired set that the controller left in place for two rounds (pod GC),
// and foreign pods squatting on a desired name (their owner removes them).
func (s *Sim) janitor(stuck map[string]int) bool {
	changed := false
	for _, ky := range s.Store.Keys(KPod) {
		p := s.Store.tables[KPod][ky].(*v1.Pod)
		parent, ord, ok := podOrdinal(p.Name)
		if !ok {
			continue
		}
		set, found := Peek[*asv1.StatefulSet](s.Store, KSet, p.Namespace, parent)
		if !found {
			continue
		}
		ref := controllerOf(p)
		owned := ref != nil && ref.UID == set.UID
		desired := setDesired(set)[ord]
		sel, err := setSelector(set)
		matches := err == nil && sel.Matches(labels.Set(p.Labels))
		// a pod somebody else put on the name (not built from the set's template:
		// adopting it leads to an update the API server forbids, as upstream) is
		// outside C02's list of initial states; its creator removes it
		if p.Labels["squatter"] == "true" || desired && !owned && !(ref == nil && matches) {
			// squatter on a desired name (foreign owner, or orphan that does not match)
			s.Store.Remove(KPod, p.Namespace, p.Name)
			s.count("janitor.squatter")
			changed = true
			continue
		}
		if podTerminal(p) && !desired {
			stuck[ky]++
			if stuck[ky] >= 2 {
				s.Store.Remove(KPod, p.Namespace, p.Name)
				s.count("janitor.podgc")
				changed = true
			}
		}
	}
	return changed
}

// Quiesce runs the premise phase of C02 and evaluates the fixed-point and the
// write-free predicates.
func (s *Sim) Quiesce() {
	s.quiet = true
	s.tracef("quiesce begins")
	s.finishProcs()
	// a migration that was started is carried through (the caller of Upgrade
	// retries until it succeeds)
	for _, name := range sortedKeys(s.oracles.migrated) {
		for try := 0; try < 4 && !s.oracles.migrated[name].upgraded; try++ {
			if _, ok := s.Store.tables[KBSet][key(NS, name)]; !ok {
				break
			}
			for i := range s.Cfg.Sets {
				if s.Cfg.Sets[i].Name == name {
					s.stepUpgrade(Step{K: "upgrade", A: i})
				}
			}
			s.finishProcs()
		}
	}
	if s.inc == nil {
		s.newIncarnation()
	}
	if s.Cfg.UnpauseAtQuiesce {
		for _, ky := range s.Store.Keys(KSet) {
			set := s.Store.tables[KSet][ky].(*asv1.StatefulSet)
			if set.Annotations[annPaused] == "true" {
				Mutate(s.Store, KSet, set.Namespace, set.Name, func(o *asv1.StatefulSet) bool {
					delete(o.Annotations, annPaused)
					return true
				})
				s.count("probe.pause_lifted_at_quiesce")
				s.Unpaused = append(s.Unpaused, key(set.Namespace, set.Name))
			}
		}
	}
	if s.revDirty {
		// somebody other than the controller wrote ControllerRevisions during the
		// chaos phase. The controller does not watch revisions (upstream neither), so
		// only the next reconcile can notice; C02's premise ("caches catch up") is
		// taken to include one such reconcile per set. Pod and set events are NOT
		// helped along: their wake-ups stay the controller's own business. A set whose
		// latest reconcile started after the last such write has seen it already, and
		// a set that was never reconciled owes its first reconcile to its add event.
		last := map[string]*Reconcile{}
		for _, rec := range s.Recs {
			if rec.Key != "" {
				last[rec.Key] = rec
			}
		}
		for _, ky := range sortedKeys(last) {
			if last[ky].StartSeq < s.revDirtySeq {
				s.ResyncOne(KSet, ky)
				s.count("quiesce.revision_resync")
			}
		}
	}
	stuck := map[string]int{}
	pods := len(s.Store.tables[KPod])
	revs := len(s.Store.tables[KRev])
	want := 0
	for _, o := range s.Store.tables[KSet] {
		want += int(specReplicas(o.(*asv1.StatefulSet)))
	}
	R := 4*(want+pods+revs) + 20
	budget := 10 * R
	reconciles := 0
	fixed := false
	round := 0
	idleRounds := 0
	for round = 0; round < R; round++ {
		changed := false
		for _, k := range cacheKinds {
			for s.Deliver(k) {
				changed = true
			}
		}
		if s.kubeletSettle(round, stuck) {
			changed = true
		}
		// foreign pods are removed only after the system has had a few rounds with
		// them in place (or has gone idle): a controller that gave up retrying is
		// then not rescued by the unrelated activity of the first rounds
		if (round >= 3 || idleRounds > 0) && s.janitor(stuck) {
			changed = true
		}
		for s.stepGC() {
			changed = true
		}
		for _, k := range cacheKinds {
			for s.Deliver(k) {
				changed = true
			}
		}
		// let every delayed re-add fire
		s.fireDelayed()
		n := s.runWorkersToCompletion(budget - reconciles)
		reconciles += n
		if n > 0 {
			changed = true
		}
		if reconciles > budget {
			break
		}
		if !changed && s.pendingTotal() == 0 && len(s.inc.queue.delayed) == 0 && s.inc.queue.Len() == 0 {
			idleRounds++
			// the janitor needs two idle rounds to collect a terminal pod (pod GC) and
			// then must have found nothing more to do
			if idleRounds >= 4 {
				fixed = true
				break
			}
		} else if !changed {
			idleRounds = 0
		}
	}
	s.tracef("quiesce: rounds=%d reconciles=%d settled=%v", round, reconciles, fixed)
	s.countN("quiesce.rounds", round)
	s.countN("quiesce.reconciles", reconciles)
	if !s.Cfg.Liveness {
		return
	}
	hostile := false
	for i := range s.Cfg.Sets {
		if s.Cfg.Sets[i].Hostile > 0 {
			hostile = true
		}
	}
	if hostile {
		// C15 profile: the hostile set may legitimately never settle (nothing is
		// demanded of it but "no panic"); the well-formed neighbour must have converged
		for _, ky := range s.Store.Keys(KSet) {
			set := s.Store.tables[KSet][ky].(*asv1.StatefulSet)
			if msg := s.fixedPointDefect(set); msg != "" {
				s.violate("C02", "C02.no-fixed-point", strings.SplitN(msg, ":", 2)[0], fmt.Sprintf("set %s next to a hostile set did not converge: %s", set.Name, msg))
			}
		}
		return
	}
	if !fixed {
		busy := ""
		if n := len(s.Recs); n > 0 {
			busy = s.Recs[n-1].Key // the key still being reconciled when the budget ran out
		}
		s.violateSet(busy, "C02", "C02.no-fixed-point", "budget", fmt.Sprintf("no fixed point after %d rounds / %d reconciles (bound R=%d)", round, reconciles, R))
		return
	}
	// fixed point predicate
	for _, ky := range s.Store.Keys(KSet) {
		set := s.Store.tables[KSet][ky].(*asv1.StatefulSet)
		if msg := s.fixedPointDefect(set); msg != "" {
			s.violateSet(key(set.Namespace, set.Name), "C02", "C02.no-fixed-point", strings.SplitN(msg, ":", 2)[0], fmt.Sprintf("set %s quiescent but not converged: %s", set.Name, msg))
		}
	}
	if len(s.Viol) > 0 {
		return
	}
	// three forced reconciles must be write-free
	before := s.Store.Mutations
	writesBefore := s.writeCalls()
	recsBefore := len(s.Recs)
	for i := 0; i < 3; i++ {
		s.Resync(KSet)
		s.runWorkersToCompletion(budget)
		for _, k := range cacheKinds {
			for s.Deliver(k) {
			}
		}
	}
	for _, rec := range s.Recs[recsBefore:] {
		if known, failed := rec.Failed(); known && failed && !rec.Crashed {
			last := "no call"
			if n := len(rec.Calls); n > 0 {
				last = rec.Calls[n-1].Verb + " " + rec.Calls[n-1].Kind.String()
			}
			s.violateSet(rec.Key, "C02", "C02.not-quiet", "retry-loop after "+last, fmt.Sprintf("at the fixed point with no faults a reconcile of %s still fails and is retried for ever (last call: %s)", rec.Key, last))
		}
	}
	if w := s.writeCalls(); w != writesBefore || s.Store.Mutations != before {
		last := s.lastWrite()
		writer := ""
		for _, rec := range s.Recs[recsBefore:] {
			for _, c := range rec.Calls {
				if c.IsWrite() {
					writer = rec.Key
				}
			}
		}
		s.violateSet(writer, "C02", "C02.not-quiet", last, fmt.Sprintf("%d write calls in forced reconciles at the fixed point (last: %s)", w-writesBefore, last))
	}
	s.oracles.atFixedPoint(s)
}

func (s *Sim) writeCalls() int {
	n := 0
	for _, c := range s.Calls {
		if c.IsWrite() && strings.HasPrefix(c.Actor, "w") {
			n++
		}
	}
	return n
}

func (s *Sim) lastWrite() string {
	for i := len(s.Calls) - 1; i >= 0; i-- {
		c := s.Calls[i]
		if c.IsWrite() {
			sub := ""
			if c.Sub != "" {
				sub = "/" + c.Sub
			}
			return c.Verb + " " + c.Kind.String() + sub
		}
	}
	return ""
}

func (s *Sim) pendingTotal() int {
	n := 0
	for _, k := range cacheKinds {
		n += len(s.Store.pending[k])
	}
	return n
}

// fireDelayed advances virtual time far enough for every rate-limited re-add to
// have surfaced in the queue: the per-item exponential delay of the default
// controller rate limiter is 5ms*2^(requeues-1), capped at 1000s.
func (s *Sim) fireDelayed() {
	q := s.inc.queue
	if len(q.delayed) == 0 {
		return
	}
	var need time.Duration
	for _, k := range sortedKeys(q.delayed) {
		n := q.NumRequeues(k)
		d := 1000 * time.Second
		if n < 18 {
			d = 5 * time.Millisecond << uint(n)
		}
		if d > need {
			need = d
		}
	}
	s.Advance(need + 200*time.Millisecond)
	for _, k := range sortedKeys(q.delayed) {
		delete(q.delayed, k) // surfaced (or being processed); Get clears it as well
	}
}

// fixedPointDefect returns "" when set is converged in the sense of DESIGN §4.4.
func (s *Sim) fixedPointDefect(set *asv1.StatefulSet) string {
	if set.DeletionTimestamp != nil {
		return "" // a set being deleted has no target state
	}
	if set.Annotations[annPaused] == "true" {
		return ""
	}
	if _, err := setSelector(set); err != nil {
		return ""
	}
	for i := range s.Cfg.Sets {
		if s.Cfg.Sets[i].Name == set.Name && s.Cfg.Sets[i].Hostile > 0 {
			return "" // C15 profile: only "no panic" is demanded of this set
		}
	}
	D := setDesired(set)
	live := map[int32]*v1.Pod{}
	for _, ky := range s.Store.Keys(KPod) {
		p := s.Store.tables[KPod][ky].(*v1.Pod)
		ref := controllerOf(p)
		if ref == nil || ref.UID != set.UID {
			continue
		}
		parent, ord, ok := podOrdinal(p.Name)
		if !ok || parent != set.Name {
			continue
		}
		live[ord] = p
	}
	for _, ord := range sortedOrdinals(D) {
		p, ok := live[ord]
		if !ok {
			return fmt.Sprintf("missing: desired ordinal %d has no pod", ord)
		}
		if !podHealthy(p) {
			return fmt.Sprintf("unhealthy: pod %s not Running+Ready", p.Name)
		}
	}
	liveOrds := make([]int32, 0, len(live))
	for ord := range live {
		liveOrds = append(liveOrds, ord)
	}
	sort.Slice(liveOrds, func(i, j int) bool { return liveOrds[i] < liveOrds[j] })
	for _, ord := range liveOrds {
		p := live[ord]
		if !D[ord] {
			return fmt.Sprintf("extra: pod %s outside the desired set %v", p.Name, sortedOrdinals(D))
		}
	}
	// revisions
	upd := set.Status.UpdateRevision
	if set.Spec.UpdateStrategy.Type == asv1.RollingUpdateStatefulSetStrategyType {
		part := int32(0)
		if ru := set.Spec.UpdateStrategy.RollingUpdate; ru != nil && ru.Partition != nil {
			part = *ru.Partition
		}
		want := templateContent(&set.Spec.Template)
		for _, ord := range liveOrds {
			p := live[ord]
			if ord < part {
				continue
			}
			rev, ok := Peek[*appsv1.ControllerRevision](s.Store, KRev, set.Namespace, podRevision(p))
			if !ok {
				return fmt.Sprintf("revision: pod %s labelled with missing revision %q", p.Name, podRevision(p))
			}
			if got, ok := RevTemplate(rev); !ok || !sameTemplate(got, want) {
				return fmt.Sprintf("revision: pod %s at or above partition %d is not at the update revision (label %s, update %s)", p.Name, part, podRevision(p), upd)
			}
		}
	}
	r := specReplicas(set)
	if set.Status.Replicas != r || set.Status.ReadyReplicas != r {
		return fmt.Sprintf("status: replicas=%d ready=%d want %d", set.Status.Replicas, set.Status.ReadyReplicas, r)
	}
	return ""
}

func podNames(ps []*v1.Pod) []string {
	var out []string
	for _, p := range ps {
		out = append(out, p.Name)
	}
	sort.Strings(out)
	return out
}

var _ = metav1.Now
