package sim

// Oracle plumbing: per-run oracle state and the hook points called by the
// driver. The per-property rules live in oracle_*.go.

import (
	"fmt"
	"sort"

	v1 "k8s.io/api/core/v1"

	asv1 "github.com/pingcap/advanced-statefulset/client/apis/apps/v1"
)

type oracleState struct {
	// C03 scale-in scenario: per set name, the ordinal put into the slots by the
	// documented edit on a converged healthy set and the pods deleted since.
	scaleIn map[string]*scaleInWatch
	// C08: per set UID, last observed (template content, update revision).
	lastUpdRev map[string]updRevObs
	// ownedRevCount etc. are computed from the store on demand.
	migrated    map[string]*migration
	// modelCur: per set UID, the current revision as the reference model of C12
	// tracks it: it follows a status write only when that write was entitled to move
	// it (so a status corrupted earlier does not blind the partition rule of C07).
	modelCur map[string]string
	// modelCurRV: resource version of the set right after the write that last set modelCur
	modelCurRV map[string]int
	helperEvals int
	eventEvals  int
	recEvals    int
	statusEvals int
}

type scaleInWatch struct {
	slot    int32
	uid     string
	deleted map[string]bool
	clean   bool
	fromSeq int
}

type updRevObs struct {
	tmpl string
	rev  string
	uid  string
	seq  int
}

func newOracleState() *oracleState {
	return &oracleState{scaleIn: map[string]*scaleInWatch{}, lastUpdRev: map[string]updRevObs{}, migrated: map[string]*migration{}, modelCur: map[string]string{}, modelCurRV: map[string]int{}}
}

// eventCtx records what the event handlers did for one delivered event.
type eventCtx struct {
	kind Kind
	typ  string
	old  Obj
	new  Obj
	sync bool
	adds []string
	// cache content of sets at the time of the event
}

func (s *Sim) onCacheEvent(k Kind, typ string, old, new Obj, sync bool) {
	s.tracef("  event %s %s %s", k, typ, new.GetName())
	s.count("event." + k.String() + "." + typ)
	s.evCtx = &eventCtx{kind: k, typ: typ, old: old, new: new, sync: sync}
	s.evPending = append(s.evPending, s.evCtx)
}

// afterHandlers is called when the handlers of the delivered event(s) have returned.
func (s *Sim) afterHandlers() {
	for _, ev := range s.evPending {
		s.checkEvent(ev)
	}
	s.evPending = nil
	s.evCtx = nil
}

// afterStep is called after every step: state abstraction for coverage,
// cross-invariants that do not belong to a reconcile.
func (s *Sim) afterStep(st Step) {
	h := s.stateHash()
	s.StateSet[h] = struct{}{}
	s.PairSet[mix(h, hashStr(st.K))] = struct{}{}
	s.checkHelpers()
}

// stateHash abstracts the cluster state (DESIGN.md §3.8).
func (s *Sim) stateHash() uint64 {
	var parts []string
	for _, ky := range s.Store.Keys(KSet) {
		set := s.Store.tables[KSet][ky].(*asv1.StatefulSet)
		part := int32(-1)
		if ru := set.Spec.UpdateStrategy.RollingUpdate; ru != nil && ru.Partition != nil {
			part = *ru.Partition
		}
		parts = append(parts, fmt.Sprintf("S%s r%d s%v p%s u%s pt%d pa%v d%v t%x st%d/%d/%d/%d",
			set.Name, specReplicas(set), sortedOrdinals(ModelSlots(set.Annotations)), set.Spec.PodManagementPolicy,
			set.Spec.UpdateStrategy.Type, part, set.Annotations[annPaused] == "true", set.DeletionTimestamp != nil,
			hashStr(templateContent(&set.Spec.Template))&0xffff,
			set.Status.Replicas, set.Status.ReadyReplicas, set.Status.CurrentReplicas, set.Status.UpdatedReplicas))
	}
	for _, ky := range s.Store.Keys(KPod) {
		p := s.Store.tables[KPod][ky].(*v1.Pod)
		oc := "n"
		if r := controllerOf(p); r != nil {
			oc = "f"
			if o, ok := Peek[*asv1.StatefulSet](s.Store, KSet, p.Namespace, r.Name); ok && o.UID == r.UID {
				oc = "o"
			}
		}
		parts = append(parts, fmt.Sprintf("P%s %s r%v t%v %x %s", p.Name, p.Status.Phase, podReady(p), podTerminating(p), hashStr(podRevision(p))&0xff, oc))
	}
	parts = append(parts, fmt.Sprintf("R%d L%d/%d/%d", len(s.Store.tables[KRev]), min(len(s.Store.pending[KPod]), 3), min(len(s.Store.pending[KSet]), 3), min(len(s.Store.pending[KPVC]), 3)))
	sort.Strings(parts)
	var h uint64
	for _, p := range parts {
		h = mix(h, hashStr(p))
	}
	return h
}
