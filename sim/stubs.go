package sim

import "runtime/debug"

func stack() string { return string(debug.Stack()) }

var profiles = map[string]*Profile{
	"base": {Name: "base"},
}

func (s *Sim) checkEvent(ev *eventCtx)        {}
func (s *Sim) checkHelpers()                  {}
func (s *Sim) checkReconcile(rec *Reconcile)  {}
func (s *Sim) endOfRun()                      {}
func (s *Sim) stepUpgrade(st Step) bool       { return false }
func (s *Sim) stepMkBuiltin(st Step) bool     { return false }
func (s *Sim) stepBuiltinController(st Step) bool { return false }
