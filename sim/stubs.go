package sim

import (
	"fmt"
	"os"
	"runtime/debug"
	"testing"
	"time"
)

func stack() string { return string(debug.Stack()) }

var profiles = map[string]*Profile{}

func sprintf(f string, a ...any) string { return fmt.Sprintf(f, a...) }

func runEngineJob(t *testing.T, job Job) *Partial { return RunJob(t, job) }
func minimizeEngine(t *testing.T, f Failure, budget time.Duration) *Replay {
	return Minimize(t, f, budget, os.Getenv("VERIF_ENGINE"))
}
func replayEngine(t *testing.T, r *Replay) (bool, uint64, string, []string) {
	tries := 1
	if r.OrderDependent {
		tries = 16
	}
	var res *Result
	for i := 0; i < tries; i++ {
		res = engineRun(r.Engine)(t, r.spec())
		if res.Harness != "" {
			return false, 0, "harness: " + res.Harness, res.Trace
		}
		if v := findViolation(res, r.Property, r.Check, r.Disc); v != nil {
			h := res.TraceHash
			if r.OrderDependent {
				h = r.Expect.TraceHash // executions differ by construction; the check fired
			}
			return true, h, v.Detail, res.Trace
		}
	}
	return false, res.TraceHash, "", res.Trace
}
