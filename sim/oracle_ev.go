package sim

// C16 per-event enqueue oracle and C01 helper agreement.

import (
	"fmt"
	"math"
	"reflect"
	"sort"

	v1 "k8s.io/api/core/v1"
	metav1 "k8s.io/apimachinery/pkg/apis/meta/v1"
	"k8s.io/apimachinery/pkg/labels"

	asv1 "github.com/pingcap/advanced-statefulset/client/apis/apps/v1"
	"github.com/pingcap/advanced-statefulset/client/apis/apps/v1/helper"
)

// cachedSets returns the sets currently in the controller's set cache.
func (s *Sim) cachedSets() []*asv1.StatefulSet {
	inf := s.informer(KSet)
	if inf == nil {
		return nil
	}
	var out []*asv1.StatefulSet
	keys := inf.indexer.Indexer.ListKeys()
	sort.Strings(keys)
	for _, k := range keys {
		o, _, _ := inf.indexer.Indexer.GetByKey(k)
		out = append(out, o.(*asv1.StatefulSet))
	}
	return out
}

func (s *Sim) checkEvent(ev *eventCtx) {
	s.oracles.eventEvals++
	s.count("oracle.events_judged")
	got := map[string]bool{}
	for _, a := range ev.adds {
		got[a] = true
	}
	required := map[string]bool{}
	allowed := map[string]bool{}
	sets := s.cachedSets()
	switch ev.kind {
	case KSet:
		k := ev.new.GetNamespace() + "/" + ev.new.GetName()
		required[k] = true
		allowed[k] = true
	case KPod:
		anyInvalid := false
		for _, set := range sets {
			if _, err := metav1.LabelSelectorAsSelector(set.Spec.Selector); err != nil {
				anyInvalid = true
			}
		}
		resolve := func(p *v1.Pod) string {
			ref := controllerOf(p)
			if ref == nil || ref.Kind != crdKind {
				return ""
			}
			for _, set := range sets {
				if set.Namespace == p.Namespace && set.Name == ref.Name && set.UID == ref.UID {
					return set.Namespace + "/" + set.Name
				}
			}
			return ""
		}
		matching := func(p *v1.Pod) []string {
			var out []string
			if len(p.Labels) == 0 {
				return nil
			}
			for _, set := range sets {
				if set.Namespace != p.Namespace {
					continue
				}
				sel, err := metav1.LabelSelectorAsSelector(set.Spec.Selector)
				if err != nil || sel.Empty() || !sel.Matches(labels.Set(p.Labels)) {
					continue
				}
				out = append(out, set.Namespace+"/"+set.Name)
			}
			return out
		}
		cur := ev.new.(*v1.Pod)
		var old *v1.Pod
		if ev.old != nil {
			old = ev.old.(*v1.Pod)
		}
		for _, p := range []*v1.Pod{old, cur} {
			if p == nil {
				continue
			}
			if k := resolve(p); k != "" {
				allowed[k] = true
			}
			for _, k := range matching(p) {
				allowed[k] = true
			}
		}
		req := func(k string) {
			if k != "" {
				required[k] = true
			}
		}
		switch ev.typ {
		case "add":
			if cur.DeletionTimestamp != nil {
				req(resolve(cur)) // treated as a delete
			} else if controllerOf(cur) != nil {
				req(resolve(cur))
			} else if !anyInvalid {
				for _, k := range matching(cur) {
					req(k)
				}
			}
		case "update":
			if cur.ResourceVersion == old.ResourceVersion {
				break
			}
			curRef, oldRef := controllerOf(cur), controllerOf(old)
			refChanged := !reflect.DeepEqual(curRef, oldRef)
			labelChanged := !reflect.DeepEqual(cur.Labels, old.Labels)
			if refChanged && oldRef != nil {
				req(resolve(old))
			}
			if curRef != nil {
				req(resolve(cur))
			} else if (labelChanged || refChanged) && !anyInvalid {
				for _, k := range matching(cur) {
					req(k)
				}
			}
		case "delete", "tombstone":
			req(resolve(cur))
		}
	default:
		return
	}
	for _, k := range sortedKeys(required) {
		if !got[k] {
			s.violate("C16", "C16.missing-enqueue", fmt.Sprintf("%s-%s", ev.kind, ev.typ), fmt.Sprintf("%s %s of %s did not enqueue %s (enqueued %v)", ev.kind, ev.typ, ev.new.GetName(), k, ev.adds))
		}
	}
	for _, k := range sortedKeys(got) {
		if !allowed[k] {
			s.violate("C16", "C16.spurious-enqueue", fmt.Sprintf("%s-%s", ev.kind, ev.typ), fmt.Sprintf("%s %s of %s enqueued unrelated %s", ev.kind, ev.typ, ev.new.GetName(), k))
		}
	}
	if len(required) > 0 {
		s.count("probe.event_required_enqueue")
	}
}

// ---- C01: helper agreement with the model -----------------------------------------------------

// slotClass names the input class of an annotation value for known-finding signatures.
func slotClass(ann map[string]string, r int32) string {
	v, ok := ann[annSlots]
	if !ok {
		return "absent"
	}
	sl := ModelSlots(ann)
	if len(sl) == 0 {
		if v == "[]" || v == "" {
			return "empty"
		}
		return "undecodable"
	}
	neg := false
	for k := range sl {
		if k < 0 {
			neg = true
		}
	}
	if neg {
		return "negative-slot"
	}
	return "wellformed"
}

// CheckHelperPair compares every helper answer for (r, annotations) with the model.
// safeHelperPair is CheckHelperPair with a panic of a helper turned into a result.
func safeHelperPair(r int32, ann map[string]string) (check, disc, detail, panicked string) {
	defer func() {
		if x := recover(); x != nil {
			if he, ok := x.(HarnessError); ok {
				panic(he)
			}
			panicked = fmt.Sprintf("a delete-slots helper panicked for r=%d annotation %q: %v", r, ann[annSlots], x)
		}
	}()
	check, disc, detail = CheckHelperPair(r, ann)
	return
}

func CheckHelperPair(r int32, ann map[string]string) (check, disc, detail string) {
	obj := &metav1.ObjectMeta{Annotations: ann}
	slots := ModelSlots(ann)
	D := Desired(r, slots)
	Dset := map[int32]bool{}
	for _, x := range D {
		Dset[x] = true
	}
	cls := slotClass(ann, r)
	fail := func(fn string, got, want any) (string, string, string) {
		return "C01.helper-mismatch", fn + ":" + cls, fmt.Sprintf("%s(r=%d, %q) = %v, model says %v", fn, r, ann[annSlots], got, want)
	}
	gs := helper.GetDeleteSlots(obj)
	if len(gs) != len(slots) {
		return fail("GetDeleteSlots", gs.List(), sortedOrdinals(slots))
	}
	for k := range slots {
		if !gs.Has(k) {
			return fail("GetDeleteSlots", gs.List(), sortedOrdinals(slots))
		}
	}
	po := helper.GetPodOrdinals(r, obj)
	po2 := helper.GetPodOrdinalsFromReplicasAndDeleteSlots(r, gs)
	for _, pr := range []struct {
		name string
		got  map[int32]struct{}
	}{{"GetPodOrdinals", toMap(po.List())}, {"GetPodOrdinalsFromReplicasAndDeleteSlots", toMap(po2.List())}} {
		name, got := pr.name, pr.got
		if len(got) != len(Dset) {
			return fail(name, keysOfStruct(got), D)
		}
		for k := range Dset {
			if _, ok := got[k]; !ok {
				return fail(name, keysOfStruct(got), D)
			}
		}
	}
	bound, eff := helper.GetMaxReplicaCountAndDeleteSlots(r, gs)
	wantBound := Bound(r, slots)
	wantEff := map[int32]bool{}
	for k := range slots {
		if k >= 0 && k < wantBound {
			wantEff[k] = true
		}
	}
	if len(D) > 0 || len(slots) == 0 {
		// for r = 0 only "no ordinal is claimed" is required of the range
		if bound != wantBound {
			return fail("GetMaxReplicaCountAndDeleteSlots.bound", bound, wantBound)
		}
		if len(eff) != len(wantEff) {
			return fail("GetMaxReplicaCountAndDeleteSlots.slots", eff.List(), sortedOrdinals(wantEff))
		}
		for k := range wantEff {
			if !eff.Has(k) {
				return fail("GetMaxReplicaCountAndDeleteSlots.slots", eff.List(), sortedOrdinals(wantEff))
			}
		}
	}
	// the answers depend on the arguments only: a caller that keeps one slot set and
	// asks again (here with a larger replica count) gets the model's answer again,
	// and its set is left as it was
	if len(gs) != len(slots) {
		return "C01.helper-mismatch", "argument-modified:" + cls, fmt.Sprintf("GetMaxReplicaCountAndDeleteSlots(r=%d, %q) changed the caller's slot set to %v", r, ann[annSlots], gs.List())
	}
	for k := range slots {
		if !gs.Has(k) {
			return "C01.helper-mismatch", "argument-modified:" + cls, fmt.Sprintf("GetMaxReplicaCountAndDeleteSlots(r=%d, %q) changed the caller's slot set to %v", r, ann[annSlots], gs.List())
		}
	}
	if r < 1<<20 {
		r2 := r + 2
		D2 := Desired(r2, slots)
		po3 := toMap(helper.GetPodOrdinalsFromReplicasAndDeleteSlots(r2, gs).List())
		same := len(po3) == len(D2)
		for _, x := range D2 {
			if _, ok := po3[x]; !ok {
				same = false
			}
		}
		if !same {
			return "C01.helper-mismatch", "history-dependent:" + cls, fmt.Sprintf("after a call with r=%d, GetPodOrdinalsFromReplicasAndDeleteSlots(r=%d, %q) = %v, model says %v", r, r2, ann[annSlots], keysOfStruct(po3), D2)
		}
		if b2, _ := helper.GetMaxReplicaCountAndDeleteSlots(r2, gs); b2 != Bound(r2, slots) {
			return "C01.helper-mismatch", "history-dependent:" + cls, fmt.Sprintf("after a call with r=%d, GetMaxReplicaCountAndDeleteSlots(r=%d, %q) bound = %d, model says %d", r, r2, ann[annSlots], b2, Bound(r2, slots))
		}
	}
	mx, mn := helper.GetMaxPodOrdinal(r, obj), helper.GetMinPodOrdinal(r, obj)
	if len(D) > 0 {
		if mx != D[len(D)-1] {
			return fail("GetMaxPodOrdinal", mx, D[len(D)-1])
		}
		if mn != D[0] {
			return fail("GetMinPodOrdinal", mn, D[0])
		}
	} else {
		if mx != -1 {
			return fail("GetMaxPodOrdinal", mx, -1)
		}
		if mn != math.MaxInt32 {
			return fail("GetMinPodOrdinal", mn, "no ordinal (MaxInt32 sentinel)")
		}
	}
	return "", "", ""
}

func toMap(l []int32) map[int32]struct{} {
	m := map[int32]struct{}{}
	for _, x := range l {
		m[x] = struct{}{}
	}
	return m
}
func keysOfStruct(m map[int32]struct{}) []int32 {
	out := make([]int32, 0, len(m))
	for k := range m {
		out = append(out, k)
	}
	sort.Slice(out, func(i, j int) bool { return out[i] < out[j] })
	return out
}

// checkHelpers evaluates the helper half of C01 on every set as stored.
func (s *Sim) checkHelpers() {
	for _, ky := range s.Store.Keys(KSet) {
		set := s.Store.tables[KSet][ky].(*asv1.StatefulSet)
		key := fmt.Sprintf("%d|%s", specReplicas(set), set.Annotations[annSlots])
		if _, ok := set.Annotations[annSlots]; !ok {
			key = fmt.Sprintf("%d|<absent>", specReplicas(set))
		}
		if s.helperSeen == nil {
			s.helperSeen = map[string]bool{}
		}
		if s.helperSeen[key] {
			continue
		}
		s.helperSeen[key] = true
		s.oracles.helperEvals++
		s.count("oracle.helper_pairs_judged")
		check, disc, detail, panicked := safeHelperPair(specReplicas(set), set.Annotations)
		if panicked != "" {
			// the helpers are called by clients and by the controller on every reconcile
			s.violate("C01", "C01.helper-panic", slotClass(set.Annotations, specReplicas(set)), panicked)
			s.violate("C15", "C15.panic", "client/apis/apps/v1/helper", panicked)
		} else if check != "" {
			s.violate("C01", check, disc, detail)
		}
	}
}
