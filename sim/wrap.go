package sim

// Parked clientset wrappers (DESIGN.md §3.3). The controller, the upgrade helper
// and the hijack client receive these instead of real clientsets. Every method
// the code under test can reach parks the calling actor on a channel (no lock
// held) until the driver releases it with a Decision, then executes against the
// Store. Unmodelled methods fall through to the generated fake clientsets, whose
// reaction chain panics ("unmodelled API call" = harness error, never a
// violation).

import (
	"context"
	"fmt"

	appsv1 "k8s.io/api/apps/v1"
	v1 "k8s.io/api/core/v1"
	apierrors "k8s.io/apimachinery/pkg/api/errors"
	metav1 "k8s.io/apimachinery/pkg/apis/meta/v1"
	"k8s.io/apimachinery/pkg/labels"
	"k8s.io/apimachinery/pkg/runtime"
	"k8s.io/apimachinery/pkg/types"
	"k8s.io/apimachinery/pkg/watch"
	"k8s.io/client-go/kubernetes"
	kubefake "k8s.io/client-go/kubernetes/fake"
	appsclient "k8s.io/client-go/kubernetes/typed/apps/v1"
	coreclient "k8s.io/client-go/kubernetes/typed/core/v1"
	clienttesting "k8s.io/client-go/testing"

	asv1 "github.com/pingcap/advanced-statefulset/client/apis/apps/v1"
	asclientset "github.com/pingcap/advanced-statefulset/client/client/clientset/versioned"
	asfake "github.com/pingcap/advanced-statefulset/client/client/clientset/versioned/fake"
	asclient "github.com/pingcap/advanced-statefulset/client/client/clientset/versioned/typed/apps/v1"
)

// DecisionKind says what happens to a released call.
type DecisionKind int

const (
	DecProceed DecisionKind = iota
	DecFailBefore
	DecFailAfter
	DecDead
)

// Decision is handed to a parked actor by the driver.
type Decision struct {
	Kind  DecisionKind
	Err   error
	Label string // fault label for logs and counters
	Race  func() // racing mutation applied to the store just before the call
}

// APICall is one entry of the API log.
type APICall struct {
	Seq           int
	Actor         string
	Inc           int
	RecID         int
	Verb          string // create update delete patch get list watch
	Sub           string
	Kind          Kind
	NS            string
	Name          string
	In            Obj
	Patch         []byte
	DelOpts       *metav1.DeleteOptions
	ListSel       string
	Fault         string
	Pre           Obj // stored object just before the call was executed (nil if absent)
	Out           Obj
	OutList       []Obj
	Err           error
	Applied       bool     // the store executed the verb and reported success
	// SetDeletingAtCall: the reconciled set carried a deletionTimestamp in the store when the call was executed
	SetDeletingAtCall bool
	// LivePodRevs (revision deletes): revision labels of the stored, non-terminating pods
	// the reconciled set controls, by pod name, when the call was executed
	LivePodRevs map[string]string
	MissingClaims []string // pod create: claims of its volumes absent from the store when the create was applied
}

func (c *APICall) IsWrite() bool {
	switch c.Verb {
	case "create", "update", "delete", "patch":
		return true
	}
	return false
}

func (c *APICall) Reason() string {
	if c.Err == nil {
		return "ok"
	}
	if r := apierrors.ReasonForError(c.Err); r != metav1.StatusReasonUnknown {
		return string(r)
	}
	return "error"
}

func (c *APICall) String() string {
	s := fmt.Sprintf("%s %s %s", c.Actor, c.Verb, c.Kind)
	if c.Sub != "" {
		s += "/" + c.Sub
	}
	s += " " + c.Name
	if c.ListSel != "" {
		s += "[" + c.ListSel + "]"
	}
	if c.Fault != "" {
		s += " fault=" + c.Fault
	}
	if set, ok := c.In.(*asv1.StatefulSet); ok && c.Sub == "status" {
		st := set.Status
		s += fmt.Sprintf(" {gen=%d r=%d rdy=%d cur=%d upd=%d %s/%s}", st.ObservedGeneration, st.Replicas, st.ReadyReplicas, st.CurrentReplicas, st.UpdatedReplicas, st.CurrentRevision, st.UpdateRevision)
	}
	return s + " -> " + c.Reason()
}

var errDead = fmt.Errorf("process is dead (simulated crash)")

// exec is the common path of every wrapped method.
func exec[T any](s *Sim, c *APICall, do func() (T, error)) (T, error) {
	var zero T
	d := s.yield(c)
	c.Fault = d.Label
	switch d.Kind {
	case DecDead:
		c.Err = errDead
		return zero, errDead
	case DecFailBefore:
		c.Err = d.Err
		s.logCall(c)
		return zero, d.Err
	}
	if d.Race != nil {
		d.Race()
	}
	if c.Name != "" {
		if o, ok := s.Store.tables[c.Kind][key(c.NS, c.Name)]; ok {
			c.Pre = cp(o)
		}
	}
	if a := s.current; a != nil && a.rec != nil && a.rec.Key != "" && c.IsWrite() {
		if o, ok := s.Store.tables[KSet][a.rec.Key]; ok {
			c.SetDeletingAtCall = o.GetDeletionTimestamp() != nil
			if c.Kind == KRev && c.Verb == "delete" {
				c.LivePodRevs = map[string]string{}
				for _, ky := range s.Store.Keys(KPod) {
					p := s.Store.tables[KPod][ky].(*v1.Pod)
					if ref := controllerOf(p); ref != nil && ref.UID == o.GetUID() && p.DeletionTimestamp == nil && p.Namespace == o.GetNamespace() {
						c.LivePodRevs[p.Name] = podRevision(p)
					}
				}
			}
		}
	}
	if c.Kind == KPod && (c.Verb == "create" || c.Verb == "update") {
		for _, v := range c.In.(*v1.Pod).Spec.Volumes {
			if v.PersistentVolumeClaim != nil {
				if _, ok := s.Store.tables[KPVC][key(c.NS, v.PersistentVolumeClaim.ClaimName)]; !ok {
					c.MissingClaims = append(c.MissingClaims, v.PersistentVolumeClaim.ClaimName)
				}
			}
		}
	}
	res, err := do()
	c.Applied = err == nil
	if d.Kind == DecFailAfter && err == nil {
		c.Err = d.Err
		s.logCall(c)
		return zero, d.Err
	}
	c.Err = err
	s.logCall(c)
	return res, err
}

func parseSel(opts metav1.ListOptions) (labels.Selector, error) {
	if opts.LabelSelector == "" {
		return labels.Everything(), nil
	}
	return labels.Parse(opts.LabelSelector)
}

// ---- kubernetes.Interface ---------------------------------------------------

type kubeClient struct {
	*kubefake.Clientset
	sim *Sim
}

func unmodelled(action clienttesting.Action) (bool, runtime.Object, error) {
	if action.GetResource().Resource == "events" {
		return true, nil, nil
	}
	panic(fmt.Sprintf("unmodelled API call: %s %s/%s", action.GetVerb(), action.GetResource().Resource, action.GetSubresource()))
}

func newKubeClient(s *Sim) kubernetes.Interface {
	f := kubefake.NewSimpleClientset()
	f.PrependReactor("*", "*", unmodelled)
	f.PrependWatchReactor("*", func(action clienttesting.Action) (bool, watch.Interface, error) {
		panic("unmodelled watch")
	})
	return &kubeClient{Clientset: f, sim: s}
}

func (c *kubeClient) CoreV1() coreclient.CoreV1Interface {
	return &coreV1{CoreV1Interface: c.Clientset.CoreV1(), sim: c.sim}
}
func (c *kubeClient) AppsV1() appsclient.AppsV1Interface {
	return &appsV1{AppsV1Interface: c.Clientset.AppsV1(), sim: c.sim}
}

type coreV1 struct {
	coreclient.CoreV1Interface
	sim *Sim
}

func (c *coreV1) Pods(ns string) coreclient.PodInterface {
	return &podClient{PodInterface: c.CoreV1Interface.Pods(ns), sim: c.sim, ns: ns}
}
func (c *coreV1) PersistentVolumeClaims(ns string) coreclient.PersistentVolumeClaimInterface {
	return &pvcClient{PersistentVolumeClaimInterface: c.CoreV1Interface.PersistentVolumeClaims(ns), sim: c.sim, ns: ns}
}
func (c *coreV1) Events(ns string) coreclient.EventInterface {
	return &eventClient{EventInterface: c.CoreV1Interface.Events(ns)}
}

// eventClient accepts and drops events without touching simulator state.
type eventClient struct{ coreclient.EventInterface }

func (e *eventClient) CreateWithEventNamespace(ev *v1.Event) (*v1.Event, error) { return ev, nil }
func (e *eventClient) UpdateWithEventNamespace(ev *v1.Event) (*v1.Event, error) { return ev, nil }
func (e *eventClient) PatchWithEventNamespace(ev *v1.Event, data []byte) (*v1.Event, error) {
	return ev, nil
}

type appsV1 struct {
	appsclient.AppsV1Interface
	sim *Sim
}

func (c *appsV1) ControllerRevisions(ns string) appsclient.ControllerRevisionInterface {
	return &revClient{ControllerRevisionInterface: c.AppsV1Interface.ControllerRevisions(ns), sim: c.sim, ns: ns}
}
func (c *appsV1) StatefulSets(ns string) appsclient.StatefulSetInterface {
	return &bsetClient{StatefulSetInterface: c.AppsV1Interface.StatefulSets(ns), sim: c.sim, ns: ns}
}

// ---- pods -----------------------------------------------------------------

type podClient struct {
	coreclient.PodInterface
	sim *Sim
	ns  string
}

func (c *podClient) Create(ctx context.Context, o *v1.Pod, opts metav1.CreateOptions) (*v1.Pod, error) {
	call := &APICall{Verb: "create", Kind: KPod, NS: c.ns, Name: o.Name, In: cp(o)}
	return exec(c.sim, call, func() (*v1.Pod, error) {
		r, err := stCreate(c.sim.Store, KPod, c.ns, o)
		if err == nil {
			call.Out = cp(r)
		}
		return r, err
	})
}
func (c *podClient) Update(ctx context.Context, o *v1.Pod, opts metav1.UpdateOptions) (*v1.Pod, error) {
	call := &APICall{Verb: "update", Kind: KPod, NS: c.ns, Name: o.Name, In: cp(o)}
	return exec(c.sim, call, func() (*v1.Pod, error) {
		r, err := stUpdate(c.sim.Store, KPod, c.ns, o, "")
		if err == nil {
			call.Out = cp(r)
		}
		return r, err
	})
}
func (c *podClient) Delete(ctx context.Context, name string, opts metav1.DeleteOptions) error {
	call := &APICall{Verb: "delete", Kind: KPod, NS: c.ns, Name: name, DelOpts: opts.DeepCopy()}
	_, err := exec(c.sim, call, func() (struct{}, error) {
		return struct{}{}, stDelete(c.sim.Store, KPod, c.ns, name, opts)
	})
	return err
}
func (c *podClient) Get(ctx context.Context, name string, opts metav1.GetOptions) (*v1.Pod, error) {
	call := &APICall{Verb: "get", Kind: KPod, NS: c.ns, Name: name}
	return exec(c.sim, call, func() (*v1.Pod, error) {
		r, err := stGet[*v1.Pod](c.sim.Store, KPod, c.ns, name)
		if err == nil {
			call.Out = cp(r)
		}
		return r, err
	})
}
func (c *podClient) List(ctx context.Context, opts metav1.ListOptions) (*v1.PodList, error) {
	call := &APICall{Verb: "list", Kind: KPod, NS: c.ns, ListSel: opts.LabelSelector}
	return exec(c.sim, call, func() (*v1.PodList, error) {
		sel, err := parseSel(opts)
		if err != nil {
			return nil, apierrors.NewBadRequest(err.Error())
		}
		l := &v1.PodList{}
		for _, o := range stList[*v1.Pod](c.sim.Store, KPod, c.ns, sel) {
			l.Items = append(l.Items, *o)
			call.OutList = append(call.OutList, cp(o))
		}
		return l, nil
	})
}
func (c *podClient) Patch(ctx context.Context, name string, pt types.PatchType, data []byte, opts metav1.PatchOptions, sub ...string) (*v1.Pod, error) {
	if len(sub) > 0 {
		panic("unmodelled API call: pod patch subresource")
	}
	call := &APICall{Verb: "patch", Kind: KPod, NS: c.ns, Name: name, Patch: append([]byte{}, data...)}
	return exec(c.sim, call, func() (*v1.Pod, error) {
		r, err := stPatch[*v1.Pod](c.sim.Store, KPod, c.ns, name, pt, data)
		if err == nil {
			call.Out = cp(r)
		}
		return r, err
	})
}

// ---- claims ---------------------------------------------------------------

type pvcClient struct {
	coreclient.PersistentVolumeClaimInterface
	sim *Sim
	ns  string
}

func (c *pvcClient) Create(ctx context.Context, o *v1.PersistentVolumeClaim, opts metav1.CreateOptions) (*v1.PersistentVolumeClaim, error) {
	call := &APICall{Verb: "create", Kind: KPVC, NS: c.ns, Name: o.Name, In: cp(o)}
	return exec(c.sim, call, func() (*v1.PersistentVolumeClaim, error) {
		r, err := stCreate(c.sim.Store, KPVC, c.ns, o)
		if err == nil {
			call.Out = cp(r)
		}
		return r, err
	})
}
func (c *pvcClient) Update(ctx context.Context, o *v1.PersistentVolumeClaim, opts metav1.UpdateOptions) (*v1.PersistentVolumeClaim, error) {
	call := &APICall{Verb: "update", Kind: KPVC, NS: c.ns, Name: o.Name, In: cp(o)}
	return exec(c.sim, call, func() (*v1.PersistentVolumeClaim, error) {
		r, err := stUpdate(c.sim.Store, KPVC, c.ns, o, "")
		if err == nil {
			call.Out = cp(r)
		}
		return r, err
	})
}
func (c *pvcClient) Delete(ctx context.Context, name string, opts metav1.DeleteOptions) error {
	call := &APICall{Verb: "delete", Kind: KPVC, NS: c.ns, Name: name, DelOpts: opts.DeepCopy()}
	_, err := exec(c.sim, call, func() (struct{}, error) {
		return struct{}{}, stDelete(c.sim.Store, KPVC, c.ns, name, opts)
	})
	return err
}
func (c *pvcClient) Get(ctx context.Context, name string, opts metav1.GetOptions) (*v1.PersistentVolumeClaim, error) {
	call := &APICall{Verb: "get", Kind: KPVC, NS: c.ns, Name: name}
	return exec(c.sim, call, func() (*v1.PersistentVolumeClaim, error) {
		r, err := stGet[*v1.PersistentVolumeClaim](c.sim.Store, KPVC, c.ns, name)
		if err == nil {
			call.Out = cp(r)
		}
		return r, err
	})
}
func (c *pvcClient) Patch(ctx context.Context, name string, pt types.PatchType, data []byte, opts metav1.PatchOptions, sub ...string) (*v1.PersistentVolumeClaim, error) {
	call := &APICall{Verb: "patch", Kind: KPVC, NS: c.ns, Name: name, Patch: append([]byte{}, data...)}
	return exec(c.sim, call, func() (*v1.PersistentVolumeClaim, error) {
		r, err := stPatch[*v1.PersistentVolumeClaim](c.sim.Store, KPVC, c.ns, name, pt, data)
		if err == nil {
			call.Out = cp(r)
		}
		return r, err
	})
}

// ---- controller revisions -------------------------------------------------

type revClient struct {
	appsclient.ControllerRevisionInterface
	sim *Sim
	ns  string
}

func (c *revClient) Create(ctx context.Context, o *appsv1.ControllerRevision, opts metav1.CreateOptions) (*appsv1.ControllerRevision, error) {
	call := &APICall{Verb: "create", Kind: KRev, NS: c.ns, Name: o.Name, In: cp(o)}
	return exec(c.sim, call, func() (*appsv1.ControllerRevision, error) {
		r, err := stCreate(c.sim.Store, KRev, c.ns, o)
		if err == nil {
			call.Out = cp(r)
		}
		return r, err
	})
}
func (c *revClient) Update(ctx context.Context, o *appsv1.ControllerRevision, opts metav1.UpdateOptions) (*appsv1.ControllerRevision, error) {
	call := &APICall{Verb: "update", Kind: KRev, NS: c.ns, Name: o.Name, In: cp(o)}
	return exec(c.sim, call, func() (*appsv1.ControllerRevision, error) {
		r, err := stUpdate(c.sim.Store, KRev, c.ns, o, "")
		if err == nil {
			call.Out = cp(r)
		}
		return r, err
	})
}
func (c *revClient) Delete(ctx context.Context, name string, opts metav1.DeleteOptions) error {
	call := &APICall{Verb: "delete", Kind: KRev, NS: c.ns, Name: name, DelOpts: opts.DeepCopy()}
	_, err := exec(c.sim, call, func() (struct{}, error) {
		return struct{}{}, stDelete(c.sim.Store, KRev, c.ns, name, opts)
	})
	return err
}
func (c *revClient) Get(ctx context.Context, name string, opts metav1.GetOptions) (*appsv1.ControllerRevision, error) {
	call := &APICall{Verb: "get", Kind: KRev, NS: c.ns, Name: name}
	return exec(c.sim, call, func() (*appsv1.ControllerRevision, error) {
		r, err := stGet[*appsv1.ControllerRevision](c.sim.Store, KRev, c.ns, name)
		if err == nil {
			call.Out = cp(r)
		}
		return r, err
	})
}
func (c *revClient) List(ctx context.Context, opts metav1.ListOptions) (*appsv1.ControllerRevisionList, error) {
	call := &APICall{Verb: "list", Kind: KRev, NS: c.ns, ListSel: opts.LabelSelector}
	return exec(c.sim, call, func() (*appsv1.ControllerRevisionList, error) {
		sel, err := parseSel(opts)
		if err != nil {
			return nil, apierrors.NewBadRequest(err.Error())
		}
		l := &appsv1.ControllerRevisionList{}
		for _, o := range stList[*appsv1.ControllerRevision](c.sim.Store, KRev, c.ns, sel) {
			l.Items = append(l.Items, *o)
			call.OutList = append(call.OutList, cp(o))
		}
		return l, nil
	})
}
func (c *revClient) Patch(ctx context.Context, name string, pt types.PatchType, data []byte, opts metav1.PatchOptions, sub ...string) (*appsv1.ControllerRevision, error) {
	call := &APICall{Verb: "patch", Kind: KRev, NS: c.ns, Name: name, Patch: append([]byte{}, data...)}
	return exec(c.sim, call, func() (*appsv1.ControllerRevision, error) {
		r, err := stPatch[*appsv1.ControllerRevision](c.sim.Store, KRev, c.ns, name, pt, data)
		if err == nil {
			call.Out = cp(r)
		}
		return r, err
	})
}

// ---- built-in StatefulSets (upgrade helper, built-in controller stub) ---------

type bsetClient struct {
	appsclient.StatefulSetInterface
	sim *Sim
	ns  string
}

func (c *bsetClient) Create(ctx context.Context, o *appsv1.StatefulSet, opts metav1.CreateOptions) (*appsv1.StatefulSet, error) {
	call := &APICall{Verb: "create", Kind: KBSet, NS: c.ns, Name: o.Name, In: cp(o)}
	return exec(c.sim, call, func() (*appsv1.StatefulSet, error) {
		r, err := stCreate(c.sim.Store, KBSet, c.ns, o)
		if err == nil {
			call.Out = cp(r)
		}
		return r, err
	})
}
func (c *bsetClient) Update(ctx context.Context, o *appsv1.StatefulSet, opts metav1.UpdateOptions) (*appsv1.StatefulSet, error) {
	call := &APICall{Verb: "update", Kind: KBSet, NS: c.ns, Name: o.Name, In: cp(o)}
	return exec(c.sim, call, func() (*appsv1.StatefulSet, error) {
		r, err := stUpdate(c.sim.Store, KBSet, c.ns, o, "")
		if err == nil {
			call.Out = cp(r)
		}
		return r, err
	})
}
func (c *bsetClient) Get(ctx context.Context, name string, opts metav1.GetOptions) (*appsv1.StatefulSet, error) {
	call := &APICall{Verb: "get", Kind: KBSet, NS: c.ns, Name: name}
	return exec(c.sim, call, func() (*appsv1.StatefulSet, error) {
		r, err := stGet[*appsv1.StatefulSet](c.sim.Store, KBSet, c.ns, name)
		if err == nil {
			call.Out = cp(r)
		}
		return r, err
	})
}
func (c *bsetClient) Delete(ctx context.Context, name string, opts metav1.DeleteOptions) error {
	call := &APICall{Verb: "delete", Kind: KBSet, NS: c.ns, Name: name, DelOpts: opts.DeepCopy()}
	_, err := exec(c.sim, call, func() (struct{}, error) {
		return struct{}{}, stDelete(c.sim.Store, KBSet, c.ns, name, opts)
	})
	return err
}

// ---- the CRD clientset ------------------------------------------------------

type asClient struct {
	*asfake.Clientset
	sim *Sim
}

func newASClient(s *Sim) asclientset.Interface {
	f := asfake.NewSimpleClientset()
	f.PrependReactor("*", "*", unmodelled)
	f.PrependWatchReactor("*", func(action clienttesting.Action) (bool, watch.Interface, error) {
		panic("unmodelled watch")
	})
	return &asClient{Clientset: f, sim: s}
}

func (c *asClient) AppsV1() asclient.AppsV1Interface {
	return &asAppsV1{AppsV1Interface: c.Clientset.AppsV1(), sim: c.sim}
}

type asAppsV1 struct {
	asclient.AppsV1Interface
	sim *Sim
}

func (c *asAppsV1) StatefulSets(ns string) asclient.StatefulSetInterface {
	return &setClient{StatefulSetInterface: c.AppsV1Interface.StatefulSets(ns), sim: c.sim, ns: ns}
}

type setClient struct {
	asclient.StatefulSetInterface
	sim *Sim
	ns  string
}

func (c *setClient) Create(ctx context.Context, o *asv1.StatefulSet, opts metav1.CreateOptions) (*asv1.StatefulSet, error) {
	call := &APICall{Verb: "create", Kind: KSet, NS: c.ns, Name: o.Name, In: cp(o)}
	return exec(c.sim, call, func() (*asv1.StatefulSet, error) {
		r, err := stCreate(c.sim.Store, KSet, c.ns, o)
		if err == nil {
			call.Out = cp(r)
		}
		return r, err
	})
}
func (c *setClient) Update(ctx context.Context, o *asv1.StatefulSet, opts metav1.UpdateOptions) (*asv1.StatefulSet, error) {
	call := &APICall{Verb: "update", Kind: KSet, NS: c.ns, Name: o.Name, In: cp(o)}
	return exec(c.sim, call, func() (*asv1.StatefulSet, error) {
		r, err := stUpdate(c.sim.Store, KSet, c.ns, o, "")
		if err == nil {
			call.Out = cp(r)
		}
		return r, err
	})
}
func (c *setClient) UpdateStatus(ctx context.Context, o *asv1.StatefulSet, opts metav1.UpdateOptions) (*asv1.StatefulSet, error) {
	call := &APICall{Verb: "update", Sub: "status", Kind: KSet, NS: c.ns, Name: o.Name, In: cp(o)}
	return exec(c.sim, call, func() (*asv1.StatefulSet, error) {
		r, err := stUpdate(c.sim.Store, KSet, c.ns, o, "status")
		if err == nil {
			call.Out = cp(r)
		}
		return r, err
	})
}
func (c *setClient) Get(ctx context.Context, name string, opts metav1.GetOptions) (*asv1.StatefulSet, error) {
	call := &APICall{Verb: "get", Kind: KSet, NS: c.ns, Name: name}
	return exec(c.sim, call, func() (*asv1.StatefulSet, error) {
		r, err := stGet[*asv1.StatefulSet](c.sim.Store, KSet, c.ns, name)
		if err == nil {
			call.Out = cp(r)
		}
		return r, err
	})
}
func (c *setClient) List(ctx context.Context, opts metav1.ListOptions) (*asv1.StatefulSetList, error) {
	call := &APICall{Verb: "list", Kind: KSet, NS: c.ns, ListSel: opts.LabelSelector}
	return exec(c.sim, call, func() (*asv1.StatefulSetList, error) {
		sel, err := parseSel(opts)
		if err != nil {
			return nil, apierrors.NewBadRequest(err.Error())
		}
		l := &asv1.StatefulSetList{}
		for _, o := range stList[*asv1.StatefulSet](c.sim.Store, KSet, c.ns, sel) {
			l.Items = append(l.Items, *o)
			call.OutList = append(call.OutList, cp(o))
		}
		return l, nil
	})
}
func (c *setClient) Delete(ctx context.Context, name string, opts metav1.DeleteOptions) error {
	call := &APICall{Verb: "delete", Kind: KSet, NS: c.ns, Name: name, DelOpts: opts.DeepCopy()}
	_, err := exec(c.sim, call, func() (struct{}, error) {
		return struct{}{}, stDelete(c.sim.Store, KSet, c.ns, name, opts)
	})
	return err
}
func (c *setClient) Patch(ctx context.Context, name string, pt types.PatchType, data []byte, opts metav1.PatchOptions, sub ...string) (*asv1.StatefulSet, error) {
	call := &APICall{Verb: "patch", Kind: KSet, NS: c.ns, Name: name, Patch: append([]byte{}, data...)}
	if len(sub) > 0 {
		call.Sub = sub[0]
	}
	return exec(c.sim, call, func() (*asv1.StatefulSet, error) {
		r, err := stPatch[*asv1.StatefulSet](c.sim.Store, KSet, c.ns, name, pt, data)
		if err == nil {
			call.Out = cp(r)
		}
		return r, err
	})
}
func (c *setClient) Watch(ctx context.Context, opts metav1.ListOptions) (watch.Interface, error) {
	if c.sim.WatchSource == nil {
		panic("unmodelled watch")
	}
	return c.sim.WatchSource(), nil
}
