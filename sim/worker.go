package sim

// Batch worker, minimiser and replay (DESIGN.md §3.6, §7). These run inside the
// test binary; the python launcher fans them out over processes.

import (
	"encoding/json"
	"fmt"
	"os"
	"sort"
	"testing"
	"time"
)

// Job is what the launcher hands to one worker process.
type Job struct {
	Property string   `json:"property"`
	Profiles []string `json:"profiles"`
	Seed     uint64   `json:"seed"`
	From     int      `json:"from"`
	To       int      `json:"to"`
	Out      string   `json:"out"`
	MaxSec   float64  `json:"max_sec"`
	Dump     string   `json:"dump,omitempty"` // write full traces here (determinism self-test)
	Engine   string   `json:"engine,omitempty"`
}

// Failure is one violating run.
type Failure struct {
	Index     int       `json:"index"`
	Spec      RunSpec   `json:"spec"`
	Config    *Config   `json:"config"`
	Steps     []Step    `json:"steps"`
	Violation Violation `json:"violation"`
	TraceHash uint64    `json:"trace_hash"`
}

// Partial is what a worker process reports.
type Partial struct {
	Job        Job               `json:"job"`
	Runs       int               `json:"runs"`
	Nontrivial int               `json:"nontrivial"`
	Counters   map[string]int    `json:"counters"`
	Failures   []Failure         `json:"failures"`
	OtherViol  map[string]int    `json:"other_violations"`
	Notes      []string          `json:"notes,omitempty"`
	Hashes     []uint64          `json:"hashes"`
	States     []uint64          `json:"states"`
	Pairs      []uint64          `json:"pairs"`
	Harness    []string          `json:"harness_errors"`
	WallSec    float64           `json:"wall_s"`
	SimTimeMs  int64             `json:"sim_time_ms"`
	Samples    []json.RawMessage `json:"samples"`
	Incomplete bool              `json:"incomplete"`
	SeedsDone  []uint64          `json:"-"`
}

func runSeed(jobSeed uint64, property string, i int) uint64 {
	return mix(jobSeed, hashStr(property), uint64(i))
}

func RunJob(t *testing.T, job Job) *Partial {
	p := &Partial{Job: job, Counters: map[string]int{}, OtherViol: map[string]int{}}
	start := time.Now()
	hashes := map[uint64]struct{}{}
	states := map[uint64]struct{}{}
	pairs := map[uint64]struct{}{}
	seenSig := map[string]int{}
	var announce *os.File
	if job.Engine == "watchsim" {
		announce = os.Stdout
	}
	var dump *os.File
	if job.Dump != "" {
		var err error
		dump, err = os.Create(job.Dump)
		if err != nil {
			panic(err)
		}
		defer dump.Close()
	}
	for i := job.From; i < job.To; i++ {
		if job.MaxSec > 0 && time.Since(start).Seconds() > job.MaxSec {
			p.Incomplete = true
			break
		}
		prof := job.Profiles[i%len(job.Profiles)]
		specs := []RunSpec{{Seed: runSeed(job.Seed, job.Property, i), Profile: prof}}
		run := engineRun(job.Engine)
		if isSweepProfile(prof) {
			// fault enumeration around sampled reconciles of this seed
			specs = SweepPlans(t, specs[0].Seed, sweepBaseOf(prof))
			run = RunSweep
			p.Counters["sweep.base_runs"]++
		}
		if job.Engine == "upgsim" {
			// fault enumeration: one job index = one population, all its plans
			specs = UpgradePlans(t, specs[0].Seed)
			p.Counters["upgrade.populations"]++
		}
		for _, spec := range specs {
			if announce != nil {
				// last line before a run: lets the launcher attribute a process death
				b, _ := json.Marshal(map[string]any{"engine": job.Engine, "profile": spec.Profile, "seed": spec.Seed, "index": i})
				fmt.Fprintf(announce, "ANNOUNCE %s\n", b)
			}
			res := run(t, spec)
			p.Runs++
			if res.Harness != "" {
				p.Harness = append(p.Harness, fmt.Sprintf("run %d seed %d profile %s: %s", i, spec.Seed, prof, res.Harness))
				if len(p.Harness) > 5 {
					break
				}
				continue
			}
			if dump != nil {
				fmt.Fprintf(dump, "=== run %d seed %d hash %x\n", i, spec.Seed, res.TraceHash)
				for _, l := range res.Trace {
					fmt.Fprintln(dump, l)
				}
			}
			for k, v := range res.Counters {
				p.Counters[k] += v
			}
			p.SimTimeMs += res.SimTime.Milliseconds()
			if res.Nontrivial {
				if _, ok := hashes[res.TraceHash]; !ok {
					hashes[res.TraceHash] = struct{}{}
					p.Nontrivial++
				}
			}
			for _, h := range res.States {
				states[h] = struct{}{}
			}
			for _, h := range res.Pairs {
				pairs[h] = struct{}{}
			}
			for _, v := range res.Violations {
				if av, ok := attributeTo(job.Property, v, res); ok {
					v = av
					sig := v.Sig()
					seenSig[sig]++
					if seenSig[sig] <= 3 {
						p.Failures = append(p.Failures, Failure{Index: i, Spec: spec, Config: res.Config, Steps: res.Steps, Violation: v, TraceHash: res.TraceHash})
					}
					p.Counters["violations."+sig]++
				} else {
					p.OtherViol[v.Sig()]++
				}
			}
			for _, n := range res.Notes {
				if len(p.Notes) < 20 {
					p.Notes = append(p.Notes, n)
				}
			}
			if len(p.Samples) < 2 && res.Nontrivial && (job.Engine != "upgsim" || len(res.Steps) > 0) {
				b, _ := json.Marshal(map[string]any{"seed": spec.Seed, "profile": prof, "config": res.Config, "steps": sampleSteps(res.Steps), "n_steps": len(res.Steps), "final": res.Final, "trace_tail": tail(res.Trace, 12)})
				p.Samples = append(p.Samples, b)
			}
		}
	}
	for h := range hashes {
		p.Hashes = append(p.Hashes, h)
	}
	for h := range states {
		p.States = append(p.States, h)
	}
	for h := range pairs {
		p.Pairs = append(p.Pairs, h)
	}
	sort.Slice(p.Hashes, func(i, j int) bool { return p.Hashes[i] < p.Hashes[j] })
	sort.Slice(p.States, func(i, j int) bool { return p.States[i] < p.States[j] })
	sort.Slice(p.Pairs, func(i, j int) bool { return p.Pairs[i] < p.Pairs[j] })
	p.WallSec = time.Since(start).Seconds()
	return p
}

// attributeTo maps a violation seen in a run to the property being checked.
// C15 reports starvation of the well-formed neighbour; C09 reports unsafe partial
// work, swallowed failures, broken bookkeeping and missing recovery in runs in
// which faults or crashes actually fired.
func attributeTo(property string, v Violation, res *Result) (Violation, bool) {
	if v.Prop == property {
		return v, true
	}
	switch property {
	case "C01":
		// the controller half of C01: creates only at the model's ordinals, and
		// exactly those ordinals live at the fixed point (oracles shared with C04 / C02)
		if v.Check == "C04.create-not-desired" {
			return Violation{Prop: "C01", Check: "C01.create-not-desired", Disc: v.Disc, Step: v.Step, Detail: v.Detail}, true
		}
		if v.Check == "C02.no-fixed-point" && (v.Disc == "extra" || v.Disc == "missing") {
			return Violation{Prop: "C01", Check: "C01.converged-ordinals", Disc: v.Disc, Step: v.Step, Detail: v.Detail}, true
		}
	case "C12":
		// census at the fixed point: a status that is still wrong when everything
		// else has settled is first seen by the C02 predicate
		if v.Check == "C02.no-fixed-point" && v.Disc == "status" {
			return Violation{Prop: "C12", Check: "C12.census", Disc: "fixed-point-status", Step: v.Step, Detail: v.Detail}, true
		}
	case "C16":
		// "a reconcile that fails is put back with backoff": a failed step that is
		// swallowed makes the worker Forget the key instead
		if v.Check == "C09.swallowed" {
			return Violation{Prop: "C16", Check: "C16.queue-bookkeeping", Disc: "swallowed:" + v.Disc, Step: v.Step, Detail: v.Detail}, true
		}
	case "C11":
		// a pause must be lossless: after it is lifted the set converges as if it
		// had never been paused (the flags profile lifts every pause before quiesce)
		// (only violations about a set that had been paused; a hostile-profile or
		// unrelated C02 violation of another set in the same run is not C11's)
		if v.Prop == "C02" && res.Config != nil && res.Config.UnpauseAtQuiesce && containsStr2(res.Unpaused, v.Set) {
			return Violation{Prop: "C11", Check: "C11.pause-lossy", Disc: v.Check + ":" + v.Disc, Step: v.Step, Detail: v.Detail}, true
		}
	case "C15":
		if v.Prop == "C02" && res.Config != nil && res.Config.Profile == "hostile" {
			return Violation{Prop: "C15", Check: "C15.neighbour-starved", Disc: v.Disc, Step: v.Step, Detail: v.Detail}, true
		}
	case "C09":
		faults := 0
		for k, n := range res.Counters {
			if len(k) > 6 && k[:6] == "fault." {
				faults += n
			}
		}
		if faults == 0 {
			return v, false
		}
		switch {
		case v.Prop == "C02":
			return Violation{Prop: "C09", Check: "C09.no-recovery", Disc: v.Check + ":" + v.Disc, Step: v.Step, Detail: v.Detail}, true
		case v.Check == "C16.queue-bookkeeping":
			return Violation{Prop: "C09", Check: "C09.queue-bookkeeping", Disc: v.Disc, Step: v.Step, Detail: v.Detail}, true
		case v.Prop == "C16" || v.Prop == "C01" || v.Prop == "C15":
			return v, false
		case v.Check == "C08.update-revision-mismatch" && v.Disc == "int-above-2^53-rounded":
			// the revision encoding rounds such integers with or without faults; it is
			// judged (and listed as known finding K2) under C08 only
			return v, false
		default:
			return Violation{Prop: "C09", Check: "C09.unsafe-partial", Disc: v.Check + ":" + v.Disc, Step: v.Step, Detail: v.Detail}, true
		}
	}
	return v, false
}

func sampleSteps(st []Step) []string {
	var out []string
	for i, s := range st {
		if i >= 40 {
			out = append(out, fmt.Sprintf("... %d more", len(st)-i))
			break
		}
		out = append(out, s.String())
	}
	return out
}

// ---- replay files -----------------------------------------------------------------

// Replay is the replay file format.
type Replay struct {
	Property string  `json:"property"`
	Check    string  `json:"check"`
	Disc     string  `json:"disc"`
	Profile  string  `json:"profile"`
	Seed     uint64  `json:"seed"`
	Config   *Config `json:"config"`
	Steps    []Step  `json:"steps"`
	Expect   struct {
		TraceHash uint64 `json:"trace_hash"`
		Detail    string `json:"detail"`
	} `json:"expect"`
	Engine string `json:"engine,omitempty"`
	// OrderDependent: executions of this very schedule differed from one another
	// (the code under test made its outcome depend on Go map iteration order);
	// replay then tries several times and does not insist on the trace hash.
	OrderDependent bool   `json:"order_dependent,omitempty"`
	RefSteps       []Step `json:"ref_steps,omitempty"`
	PureFault      bool   `json:"pure_fault,omitempty"`
}

func (r *Replay) spec() RunSpec {
	return RunSpec{Seed: r.Seed, Profile: r.Profile, Config: r.Config, Steps: r.Steps, RefSteps: r.RefSteps, PureFault: r.PureFault}
}

// findViolation looks for (check, disc) among the run's violations as
// attributed to property.
func findViolation(res *Result, property, check, disc string) *Violation {
	for i := range res.Violations {
		if v, ok := attributeTo(property, res.Violations[i], res); ok && v.Check == check && v.Disc == disc {
			return &v
		}
	}
	return nil
}

// Minimize shrinks a failing run while the same check (and discriminator) fires.
func Minimize(t *testing.T, f Failure, budget time.Duration, engine string) *Replay {
	RunOne := engineRun(engine)
	start := time.Now()
	check, disc := f.Violation.Check, f.Violation.Disc
	cfg := f.Config
	steps := append([]Step{}, f.Steps...)
	tries := 0
	// The code under test walks Go maps (claims of one pod): a change that makes
	// the outcome depend on that order fails only in some executions of the same
	// schedule. A candidate therefore counts as failing if any of a few tries
	// fails, and the replay file records whether executions differed.
	fails := func(c *Config, st []Step) bool {
		for try := 0; try < 3; try++ {
			tries++
			res := RunOne(t, RunSpec{Seed: f.Spec.Seed, Profile: f.Spec.Profile, Config: c, Steps: st})
			if res.Harness == "" && findViolation(res, f.Violation.Prop, check, disc) != nil {
				return true
			}
		}
		return false
	}
	out := func() *Replay {
		r := &Replay{Property: f.Violation.Prop, Check: check, Disc: disc, Profile: f.Spec.Profile, Seed: f.Spec.Seed, Config: cfg, Steps: steps, Engine: engine}
		hashes := map[uint64]bool{}
		for try := 0; try < 8; try++ {
			res := RunOne(t, r.spec())
			hashes[res.TraceHash] = true
			if v := findViolation(res, f.Violation.Prop, check, disc); v != nil && r.Expect.Detail == "" {
				r.Expect.TraceHash = res.TraceHash
				r.Expect.Detail = v.Detail
			}
			if try >= 1 && len(hashes) == 1 && r.Expect.Detail != "" {
				break
			}
		}
		r.OrderDependent = len(hashes) > 1
		if r.Expect.Detail == "" {
			return nil
		}
		return r
	}
	if f.Spec.RefSteps != nil {
		// a fault-sweep point: already short, and tied to its reference schedule
		res := RunSweep(t, f.Spec)
		v := findViolation(res, f.Violation.Prop, check, disc)
		if res.Harness != "" || v == nil {
			return nil
		}
		r := &Replay{Property: f.Violation.Prop, Check: check, Disc: disc, Profile: f.Spec.Profile, Seed: f.Spec.Seed, Config: f.Spec.Config, Steps: f.Spec.Steps, RefSteps: f.Spec.RefSteps, PureFault: f.Spec.PureFault, Engine: "sweep"}
		r.Expect.TraceHash = res.TraceHash
		r.Expect.Detail = v.Detail
		return r
	}
	if !fails(cfg, steps) {
		// the explicit-steps form must fail like the generated run did
		return nil
	}
	timeUp := func() bool { return time.Since(start) > budget }
	// 1. truncate: shortest failing prefix (binary search is unsound for non-monotone
	// failures, so probe a few lengths, then refine)
	for n := len(steps) / 2; n >= 1 && !timeUp(); n /= 2 {
		for len(steps) > n && fails(cfg, steps[:len(steps)-n]) {
			steps = steps[:len(steps)-n]
			if timeUp() {
				break
			}
		}
	}
	// 2. ddmin over steps
	for chunk := len(steps) / 2; chunk >= 1 && !timeUp(); {
		removed := false
		for i := 0; i+chunk <= len(steps) && !timeUp(); {
			cand := append(append([]Step{}, steps[:i]...), steps[i+chunk:]...)
			if fails(cfg, cand) {
				steps = cand
				removed = true
			} else {
				i += chunk
			}
		}
		if !removed || chunk > len(steps) {
			chunk /= 2
		}
		if chunk > len(steps)/2 && chunk > 1 {
			chunk = len(steps) / 2
		}
	}
	// 3. simplify surviving steps
	for i := 0; i < len(steps) && !timeUp(); i++ {
		st := steps[i]
		var alts []Step
		if (st.K == "release" || st.K == "prel") && st.B != 0 {
			a := st
			a.B, a.C = 0, 0
			alts = append(alts, a)
		}
		if st.K == "crash" || st.K == "relist" || st.K == "resync" {
			alts = append(alts, Step{K: "deliverall"})
		}
		for _, f := range []func(*Step) bool{
			func(s *Step) bool {
				if s.A > 0 {
					s.A = 0
					return true
				}
				return false
			},
			func(s *Step) bool {
				if s.B > 0 && s.K != "release" {
					s.B /= 2
					return true
				}
				return false
			},
			func(s *Step) bool {
				if s.D > 0 {
					s.D = 0
					return true
				}
				return false
			},
		} {
			a := st
			if f(&a) {
				alts = append(alts, a)
			}
		}
		for _, a := range alts {
			cand := append([]Step{}, steps...)
			cand[i] = a
			if fails(cfg, cand) {
				steps = cand
				st = a
			}
		}
	}
	// 4. shrink the configuration
	shrinkCfg := func(mut func(c *Config) bool) {
		b, _ := json.Marshal(cfg)
		var c Config
		json.Unmarshal(b, &c)
		if mut(&c) && !timeUp() && fails(&c, steps) {
			cfg = &c
		}
	}
	shrinkCfg(func(c *Config) bool {
		if c.Workers > 1 {
			c.Workers = 1
			return true
		}
		return false
	})
	shrinkCfg(func(c *Config) bool {
		if !c.NoRotate {
			c.NoRotate = true
			return true
		}
		return false
	})
	shrinkCfg(func(c *Config) bool {
		if c.Graceful {
			c.Graceful = false
			return true
		}
		return false
	})
	for i := range cfg.Sets {
		i := i
		shrinkCfg(func(c *Config) bool {
			if c.Sets[i].Claims > 0 {
				c.Sets[i].Claims = 0
				return true
			}
			return false
		})
		shrinkCfg(func(c *Config) bool {
			if c.Sets[i].Slots != nil {
				c.Sets[i].Slots = nil
				return true
			}
			return false
		})
		shrinkCfg(func(c *Config) bool {
			if c.Sets[i].Replicas > 1 {
				c.Sets[i].Replicas = 1
				return true
			}
			return false
		})
		shrinkCfg(func(c *Config) bool {
			if c.Sets[i].ExprSelector {
				c.Sets[i].ExprSelector = false
				return true
			}
			return false
		})
	}
	cfg.Weights = nil
	// one more ddmin pass with single steps after simplification
	for i := 0; i < len(steps) && !timeUp(); {
		cand := append(append([]Step{}, steps[:i]...), steps[i+1:]...)
		if fails(cfg, cand) {
			steps = cand
		} else {
			i++
		}
	}
	_ = tries
	return out()
}

func readJSON(path string, v any) {
	b, err := os.ReadFile(path)
	if err != nil {
		panic(err)
	}
	if err := json.Unmarshal(b, v); err != nil {
		panic(fmt.Sprintf("%s: %v", path, err))
	}
}

func writeJSON(path string, v any) {
	b, err := json.MarshalIndent(v, "", " ")
	if err != nil {
		panic(err)
	}
	if err := os.WriteFile(path, b, 0o644); err != nil {
		panic(err)
	}
}

// engineRun selects the simulator that executes a RunSpec.
func engineRun(engine string) func(*testing.T, RunSpec) *Result {
	switch engine {
	case "", "ctlsim":
		return RunOne
	case "watchsim":
		return RunWatch
	case "upgsim":
		return RunUpgrade
	case "sweep":
		return RunSweep
	}
	panic("unknown engine " + engine)
}

func containsStr2(l []string, x string) bool {
	for _, y := range l {
		if y == x && x != "" {
			return true
		}
	}
	return false
}
