package sim

// upgsim: the real helper.Upgrade parked at every API call, with every call
// position x error kind x {before, after apply} enumerated singly and in
// sampled pairs, plus abandonment (crash) at every position, over seeded
// populations (DESIGN.md §5 C17).

import (
	"context"
	"encoding/json"
	"fmt"
	"sort"
	"strings"
	"testing"
	"testing/synctest"

	appsv1 "k8s.io/api/apps/v1"
	v1 "k8s.io/api/core/v1"
	apierrors "k8s.io/apimachinery/pkg/api/errors"
	metav1 "k8s.io/apimachinery/pkg/apis/meta/v1"
	"k8s.io/apimachinery/pkg/labels"
	"k8s.io/apimachinery/pkg/runtime"
	"k8s.io/apimachinery/pkg/types"

	asv1 "github.com/pingcap/advanced-statefulset/client/apis/apps/v1"
	"github.com/pingcap/advanced-statefulset/client/apis/apps/v1/helper"
)

// UpgCfg describes a migration population.
type UpgCfg struct {
	Selector    int  `json:"selector"`     // 0 matchLabels, 1 matchExpressions(In), 2 both, 3 expression-only NotIn (matches label-less objects)
	Revisions   int  `json:"revisions"`    // revisions of the set (1..5)
	Foreign     int  `json:"foreign"`      // revisions of somebody else
	PreExisting int  `json:"pre_existing"` // 0 no CRD object, 1 one with the same spec, 2 one with another spec and status
	Relabelled  int  `json:"relabelled"`   // how many of the set's revisions already carry the marker and lack the selector labels
	LabelLess   bool `json:"label_less"`   // a revision without any label (selected only by shape 3)
	Pods        int  `json:"pods"`
	RetryReread bool `json:"retry_reread"` // the caller re-reads the built-in set before each retry
	Replicas    int  `json:"replicas"`
	Template    int  `json:"template"`
}

func genUpgCfg(r *PRNG) *UpgCfg {
	return &UpgCfg{Selector: r.Intn(4), Revisions: r.Range(1, 5), Foreign: r.Intn(3), PreExisting: []int{0, 0, 1, 2}[r.Intn(4)],
		Relabelled: r.Intn(3), LabelLess: r.Chance(0.3), Pods: r.Intn(4), RetryReread: r.Chance(0.5), Replicas: r.Range(1, 4), Template: r.Intn(6)}
}

const upgName = "web"

func upgSelector(shape int) *metav1.LabelSelector {
	switch shape % 4 {
	case 0:
		return &metav1.LabelSelector{MatchLabels: map[string]string{"app": upgName, "tier": "db"}}
	case 1:
		return &metav1.LabelSelector{MatchExpressions: []metav1.LabelSelectorRequirement{{Key: "app", Operator: metav1.LabelSelectorOpIn, Values: []string{upgName}}}}
	case 2:
		return &metav1.LabelSelector{MatchLabels: map[string]string{"app": upgName}, MatchExpressions: []metav1.LabelSelectorRequirement{{Key: "tier", Operator: metav1.LabelSelectorOpExists}}}
	default:
		return &metav1.LabelSelector{MatchExpressions: []metav1.LabelSelectorRequirement{{Key: "env", Operator: metav1.LabelSelectorOpNotIn, Values: []string{"prod"}}}}
	}
}

// buildUpgPopulation fills the store and returns the built-in set as its caller holds it.
func buildUpgPopulation(s *Sim, c *UpgCfg) *appsv1.StatefulSet {
	st := s.Store
	lbls := map[string]string{"app": upgName, "tier": "db"}
	b := &appsv1.StatefulSet{}
	b.TypeMeta = metav1.TypeMeta{APIVersion: "apps/v1", Kind: "StatefulSet"}
	b.Name = upgName
	b.Namespace = NS
	b.Labels = map[string]string{"managed-by": "operator"}
	b.Annotations = map[string]string{"note": "x"}
	b.Spec.Replicas = int32p(int32(c.Replicas))
	b.Spec.Selector = upgSelector(c.Selector)
	b.Spec.Template = Template(lbls, c.Template)
	b.Spec.ServiceName = "svc-web"
	b.Spec.PodManagementPolicy = appsv1.OrderedReadyPodManagement
	b.Spec.UpdateStrategy = appsv1.StatefulSetUpdateStrategy{Type: appsv1.RollingUpdateStatefulSetStrategyType, RollingUpdate: &appsv1.RollingUpdateStatefulSetStrategy{Partition: int32p(0)}}
	b.Spec.RevisionHistoryLimit = int32p(10)
	created, err := stCreate(st, KBSet, NS, b)
	if err != nil {
		harnessf("population: %v", err)
	}
	owner := ownerRefFor("apps/v1", "StatefulSet", upgName, created.UID)
	for i := 0; i < c.Revisions; i++ {
		t := Template(lbls, c.Template+i)
		r := &appsv1.ControllerRevision{}
		r.Name = fmt.Sprintf("%s-rev%d", upgName, i)
		r.Labels = map[string]string{"app": upgName, "tier": "db", "controller.kubernetes.io/hash": fmt.Sprint(i)}
		if i < c.Relabelled {
			// a previous, interrupted upgrade already relabelled this one
			delete(r.Labels, "app")
			delete(r.Labels, "tier")
			r.Labels[lblUpgrade] = upgName
		}
		r.Data = runtime.RawExtension{Raw: RefPatch(&t)}
		r.Revision = int64(i + 1)
		r.OwnerReferences = []metav1.OwnerReference{owner}
		if _, err := stCreate(st, KRev, NS, r); err != nil {
			harnessf("population: %v", err)
		}
	}
	for i := 0; i < c.Foreign; i++ {
		t := Template(map[string]string{"app": "other"}, i)
		r := &appsv1.ControllerRevision{}
		r.Name = fmt.Sprintf("other-rev%d", i)
		r.Labels = map[string]string{"app": "other", "env": "prod"}
		r.Data = runtime.RawExtension{Raw: RefPatch(&t)}
		r.Revision = int64(i + 1)
		stCreate(st, KRev, NS, r)
	}
	if c.LabelLess {
		t := Template(lbls, 9)
		r := &appsv1.ControllerRevision{}
		r.Name = upgName + "-bare"
		r.Data = runtime.RawExtension{Raw: RefPatch(&t)}
		r.Revision = 99
		r.OwnerReferences = []metav1.OwnerReference{owner}
		stCreate(st, KRev, NS, r)
	}
	for i := 0; i < c.Pods; i++ {
		t := Template(lbls, c.Template)
		p := &v1.Pod{}
		p.Name = fmt.Sprintf("%s-%d", upgName, i)
		p.Labels = map[string]string{}
		for k, x := range t.Labels {
			p.Labels[k] = x
		}
		p.Labels[lblPodName] = p.Name
		p.Labels[lblRevision] = upgName + "-rev0"
		p.Spec = t.Spec
		p.OwnerReferences = []metav1.OwnerReference{owner}
		stCreate(st, KPod, NS, p)
		pvc := &v1.PersistentVolumeClaim{}
		pvc.Name = fmt.Sprintf("data-%s-%d", upgName, i)
		stCreate(st, KPVC, NS, pvc)
	}
	// status as the built-in controller left it
	Mutate(st, KBSet, NS, upgName, func(o *appsv1.StatefulSet) bool {
		o.Status = appsv1.StatefulSetStatus{ObservedGeneration: 1, Replicas: int32(c.Pods), ReadyReplicas: int32(c.Pods), CurrentReplicas: int32(c.Pods), UpdatedReplicas: int32(c.Pods),
			CurrentRevision: upgName + "-rev0", UpdateRevision: upgName + "-rev0", CollisionCount: int32p(0)}
		return true
	})
	if c.PreExisting > 0 {
		conv, err := helper.FromBuiltinStatefulSet(b)
		if err != nil {
			harnessf("population: %v", err)
		}
		conv.ResourceVersion = ""
		if c.PreExisting == 2 {
			conv.Spec.Replicas = int32p(7)
			conv.Spec.Template = Template(lbls, 5)
			conv.Annotations = map[string]string{"kept": "yes"}
		}
		if _, err := stCreate(st, KSet, NS, conv); err != nil {
			harnessf("population: %v", err)
		}
		if c.PreExisting == 2 {
			Mutate(st, KSet, NS, upgName, func(o *asv1.StatefulSet) bool { o.Status.Replicas = 42; return true })
		}
	}
	cur, _ := stGet[*appsv1.StatefulSet](st, KBSet, NS, upgName)
	return cur
}

// storeDump is the final state modulo resource versions, UIDs, timestamps and generations.
func storeDump(st *Store) string {
	var lines []string
	for k := Kind(0); k < numKinds; k++ {
		for _, ky := range st.Keys(k) {
			o := cp(st.tables[k][ky])
			o.SetResourceVersion("")
			o.SetUID("")
			o.SetCreationTimestamp(metav1.Time{})
			o.SetGeneration(0)
			o.SetManagedFields(nil)
			if o.GetDeletionTimestamp() != nil {
				t := metav1.NewTime(epoch)
				o.SetDeletionTimestamp(&t)
			}
			refs := o.GetOwnerReferences()
			for i := range refs {
				refs[i].UID = types.UID("uid-of-" + refs[i].Kind + "/" + refs[i].Name)
			}
			o.SetOwnerReferences(refs)
			b, _ := json.Marshal(o)
			var x any
			json.Unmarshal(b, &x)
			b, _ = json.Marshal(x)
			lines = append(lines, fmt.Sprintf("%s %s %s", k, ky, b))
		}
	}
	sort.Strings(lines)
	return strings.Join(lines, "\n")
}

// upgPlan is the fault plan of one run: position -> (code, arg); crash position.
type upgPlan struct {
	faults map[int][2]int
	crash  map[int]bool // position -> in-flight call applied before the death
	hasCr  map[int]bool
}

func planFromSteps(steps []Step) upgPlan {
	p := upgPlan{faults: map[int][2]int{}, crash: map[int]bool{}, hasCr: map[int]bool{}}
	for _, st := range steps {
		switch st.K {
		case "fault":
			p.faults[st.A] = [2]int{st.B, st.C}
		case "crash":
			p.hasCr[st.A] = true
			p.crash[st.A] = st.B == 1
		}
	}
	return p
}

// upgOutcome is what one execution of the upgrade scenario produced.
type upgOutcome struct {
	calls     int
	dump      string
	attempts  int
	succeeded bool
	pure      bool // only pure-failure kinds were injected
}

// runUpgradeScenario runs population + plan inside the current bubble.
func runUpgradeScenario(s *Sim, c *UpgCfg, plan upgPlan, viol func(check, disc, detail string)) upgOutcome {
	out := upgOutcome{pure: true}
	held := buildUpgPopulation(s, c)
	sel, err := metav1.LabelSelectorAsSelector(held.Spec.Selector)
	if err != nil {
		harnessf("selector: %v", err)
	}
	// revisions selected at the start
	var selected []string
	for _, r := range All[*appsv1.ControllerRevision](s.Store, KRev) {
		if sel.Matches(labels.Set(r.Labels)) {
			selected = append(selected, r.Name)
		}
	}
	wantSpec, err := helper.FromBuiltinStatefulSet(held)
	if err != nil {
		harnessf("convert: %v", err)
	}
	wantSpecJSON := canonJSON(refConvertSpec(held))
	_ = wantSpec
	statusWritten := false
	pos := 0
	const maxAttempts = 8
	for out.attempts < maxAttempts {
		out.attempts++
		obj := held
		if c.RetryReread && out.attempts > 1 {
			fresh, err := stGet[*appsv1.StatefulSet](s.Store, KBSet, NS, upgName)
			if err != nil {
				// the built-in set is gone: the caller has nothing left to upgrade
				out.succeeded = true
				break
			}
			obj = fresh
		}
		a := &actor{name: fmt.Sprintf("upgrade%d", out.attempts)}
		s.procs = append(s.procs, a)
		in := obj.DeepCopy()
		s.spawn(a, func() {
			_, a.result = helper.Upgrade(context.TODO(), s.kube, s.as, in)
		})
		crashed := false
		for !a.done {
			if a.pending == nil {
				harnessf("upgrade actor neither parked nor done")
			}
			call := a.pending
			pos++
			d := Decision{}
			if f, ok := plan.faults[pos]; ok {
				d = s.decide(a, call, f[0], f[1])
				if f[0] == FRace || f[0] == FRace2 {
					out.pure = false
				}
			}
			// invariants at the instant the delete of the built-in set is applied
			if call.Kind == KBSet && call.Verb == "delete" && d.Kind != DecFailBefore && !(plan.hasCr[pos] && !plan.crash[pos]) {
				if d.Race == nil {
					s.checkUpgradeDeletePreconditions(call, selected, held, wantSpecJSON, statusWritten, viol)
				}
			}
			if plan.hasCr[pos] {
				// the process running the helper dies at this call
				a.dead = true
				crashed = true
				s.count("fault.crash")
				if plan.crash[pos] && call.IsWrite() {
					s.release(a, Decision{Kind: DecFailAfter, Err: errDead, Label: "crash-after"})
				} else {
					s.release(a, Decision{Kind: DecDead, Label: "crash-before"})
				}
				for i := 0; !a.done; i++ {
					if a.pending != nil {
						s.release(a, Decision{Kind: DecDead})
					}
					if i > 100 {
						harnessf("dead upgrade actor does not finish")
					}
				}
				break
			}
			s.release(a, d)
			last := s.Calls[len(s.Calls)-1]
			if last.Kind == KSet && last.Verb == "update" && last.Sub == "status" && last.Applied {
				in := last.In.(*asv1.StatefulSet)
				if canonJSON(in.Status) == canonJSON(refConvertStatus(held)) {
					statusWritten = true
				}
			}
		}
		if a.panicVal != nil {
			if he, ok := a.panicVal.(HarnessError); ok {
				panic(he)
			}
			viol("C17.panic", panicSite(a.panicStack), fmt.Sprintf("Upgrade panicked: %v at %s", a.panicVal, panicSite(a.panicStack)))
			return out
		}
		if !crashed && a.result == nil {
			out.succeeded = true
			break
		}
	}
	out.calls = pos
	// what the helper may write
	for _, c := range s.Calls {
		if !c.IsWrite() {
			continue
		}
		switch {
		case c.Kind == KPod || c.Kind == KPVC:
			viol("C17.pod-write", c.Verb+" "+c.Kind.String(), fmt.Sprintf("the upgrade helper issued %s", c))
		case c.Kind == KRev && c.Verb != "update":
			viol("C17.pod-write", c.Verb+" "+c.Kind.String(), fmt.Sprintf("the upgrade helper issued %s", c))
		case c.Kind == KBSet && c.Verb != "delete":
			viol("C17.pod-write", c.Verb+" "+c.Kind.String(), fmt.Sprintf("the upgrade helper issued %s", c))
		case c.Kind == KBSet && c.Verb == "delete":
			if c.DelOpts == nil || c.DelOpts.PropagationPolicy == nil || *c.DelOpts.PropagationPolicy != metav1.DeletePropagationOrphan {
				viol("C17.propagation", "delete", "the built-in StatefulSet was deleted without propagationPolicy=Orphan")
			}
		case c.Kind == KSet && c.Verb == "delete":
			viol("C17.pod-write", "delete "+c.Kind.String(), "the upgrade helper deleted the Advanced StatefulSet")
		}
	}
	if !out.succeeded {
		viol("C17.not-idempotent", "never-succeeds", fmt.Sprintf("the helper did not succeed within %d attempts once faults stopped", maxAttempts))
		return out
	}
	// pods and claims survive: GC only strips owner references under orphan propagation
	for s.stepGC() {
	}
	out.dump = storeDump(s.Store)
	return out
}

// reference conversion: JSON round trip into the Advanced API's types (what
// "the same spec and status" means for the fields that API models)
func refConvertSpec(b *appsv1.StatefulSet) any {
	j, _ := json.Marshal(b.Spec)
	var x asv1.StatefulSetSpec
	if err := json.Unmarshal(j, &x); err != nil {
		panic(err)
	}
	return x
}
func refConvertStatus(b *appsv1.StatefulSet) any {
	j, _ := json.Marshal(b.Status)
	var x asv1.StatefulSetStatus
	if err := json.Unmarshal(j, &x); err != nil {
		panic(err)
	}
	return x
}

func (s *Sim) checkUpgradeDeletePreconditions(call *APICall, selected []string, held *appsv1.StatefulSet, wantSpecJSON string, statusWritten bool, viol func(check, disc, detail string)) {
	as, ok := Peek[*asv1.StatefulSet](s.Store, KSet, NS, upgName)
	if !ok {
		viol("C17.order", "no-advanced-set", "the built-in StatefulSet is being deleted but no Advanced StatefulSet of that name exists")
		return
	}
	if canonJSON(as.Spec) != wantSpecJSON {
		viol("C17.order", "spec-differs", "the built-in StatefulSet is being deleted but the Advanced StatefulSet's spec is not the converted spec")
	}
	if !statusWritten && canonJSON(as.Status) != canonJSON(refConvertStatus(held)) {
		viol("C17.order", "status-missing", "the built-in StatefulSet is being deleted before its status was carried over")
	}
	var keys []string
	if held.Spec.Selector != nil {
		for k := range held.Spec.Selector.MatchLabels {
			keys = append(keys, k)
		}
	}
	for _, name := range selected {
		r, ok := Peek[*appsv1.ControllerRevision](s.Store, KRev, NS, name)
		if !ok {
			continue // removed by somebody else
		}
		if r.Labels[lblUpgrade] != upgName {
			viol("C17.relabel", "marker-missing", fmt.Sprintf("built-in set deleted while revision %s lacks the upgrade marker", name))
		}
		for _, k := range keys {
			if _, has := r.Labels[k]; has {
				viol("C17.relabel", "selector-label-left", fmt.Sprintf("built-in set deleted while revision %s still carries selector label %s", name, k))
			}
		}
	}
}

var upgKinds = []int{FBefore500, FBeforeTimeout, FBefore429, FAfter500, FAfterTimeout, FRace, FRace2}

// UpgradePlans enumerates the fault plans for population seed: every position x
// kind singly, crash before/after at every position, and sampled pairs.
func UpgradePlans(t *testing.T, seed uint64) []RunSpec {
	base := RunUpgrade(t, RunSpec{Seed: seed, Profile: "upgrade"})
	n := base.Counters["upgrade.calls"]
	specs := []RunSpec{{Seed: seed, Profile: "upgrade", Config: base.Config, Steps: []Step{}}}
	mk := func(steps ...Step) {
		specs = append(specs, RunSpec{Seed: seed, Profile: "upgrade", Config: base.Config, Steps: steps})
	}
	for p := 1; p <= n; p++ {
		for _, k := range upgKinds {
			mk(Step{K: "fault", A: p, B: k})
		}
		mk(Step{K: "crash", A: p, B: 0})
		mk(Step{K: "crash", A: p, B: 1})
	}
	r := NewPRNG(mix(seed, 0x17))
	for i := 0; i < 3*n; i++ {
		p := r.Range(1, n)
		q := r.Range(p+1, 2*n+2)
		mk(Step{K: "fault", A: p, B: upgKinds[r.Intn(len(upgKinds))]}, Step{K: "fault", A: q, B: upgKinds[r.Intn(len(upgKinds))]})
	}
	for i := 0; i < n; i++ {
		p := r.Range(1, n)
		q := r.Range(p+1, 2*n+2)
		mk(Step{K: "crash", A: p, B: r.Intn(2)}, Step{K: "fault", A: q, B: upgKinds[r.Intn(len(upgKinds))]})
	}
	return specs
}

// RunUpgrade executes one (population, plan) pair: first the uninterrupted
// reference run, then the planned run, each in its own bubble.
func RunUpgrade(t *testing.T, spec RunSpec) (res *Result) {
	Pin()
	res = &Result{Spec: spec, Counters: map[string]int{}}
	r := NewPRNG(mix(spec.Seed, 0x17c))
	cfg := spec.Config
	if cfg == nil {
		cfg = &Config{Profile: "upgrade", Dialect: "truthful", Upg: genUpgCfg(r)}
	}
	res.Config = cfg
	res.Steps = spec.Steps
	var ref, got upgOutcome
	viol := func(check, disc, detail string) {
		for _, v := range res.Violations {
			if v.Check == check && v.Disc == disc {
				return
			}
		}
		res.Violations = append(res.Violations, Violation{Prop: "C17", Check: check, Disc: disc, Detail: detail})
		res.Trace = append(res.Trace, fmt.Sprintf("VIOLATION %s %s %s", check, disc, detail))
	}
	bubble := func(plan upgPlan, out *upgOutcome, label string) {
		defer func() {
			if r := recover(); r != nil {
				msg := fmt.Sprint(r)
				if !strings.Contains(msg, "deadlock: main bubble goroutine has exited") && res.Harness == "" {
					res.Harness = "panic outside run: " + msg
				}
			}
		}()
		synctest.Test(t, func(t *testing.T) {
			defer func() {
				if r := recover(); r != nil {
					if he, ok := r.(HarnessError); ok {
						res.Harness = he.Msg
					} else {
						res.Harness = fmt.Sprintf("panic in upgrade driver: %v\n%s", r, stack())
					}
				}
			}()
			s := NewSim(spec.Seed, cfg)
			s.tracef("%s run", label)
			*out = runUpgradeScenario(s, cfg.Upg, plan, viol)
			res.Trace = append(res.Trace, s.Trace...)
			for k, v := range s.Counters {
				res.Counters[k] += v
			}
		})
	}
	bubble(upgPlan{}, &ref, "reference")
	res.Counters["upgrade.calls"] = ref.calls
	if res.Harness != "" {
		return res
	}
	if len(spec.Steps) > 0 {
		bubble(planFromSteps(spec.Steps), &got, "planned")
		if res.Harness == "" && got.succeeded && ref.succeeded && got.pure && got.dump != ref.dump {
			viol("C17.not-idempotent", "final-state", "after failures and retries the final objects differ from the uninterrupted run's: "+firstDiff(ref.dump, got.dump))
		}
		res.Counters["upgrade.attempts"] += got.attempts
	}
	res.Counters["writes.controller"] = 1
	res.Nontrivial = true
	res.TraceHash = hashStr(strings.Join(res.Trace, "\n"))
	return res
}

func firstDiff(a, b string) string {
	la, lb := strings.Split(a, "\n"), strings.Split(b, "\n")
	for i := 0; i < len(la) || i < len(lb); i++ {
		x, y := "", ""
		if i < len(la) {
			x = la[i]
		}
		if i < len(lb) {
			y = lb[i]
		}
		if x != y {
			if len(x) > 300 {
				x = x[:300]
			}
			if len(y) > 300 {
				y = y[:300]
			}
			return fmt.Sprintf("reference %q vs %q", x, y)
		}
	}
	return ""
}

var _ = apierrors.IsNotFound
