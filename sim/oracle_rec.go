package sim

// Per-reconcile action oracle (DESIGN.md §4.3, §5). Every rule is stated relative
// to what this reconcile observed (cached set, cached pods, claimed pods, live
// revision lists) and what it did (the ordered API calls with their results), so
// that cache lag, concurrent edits and in-flight reconciles cannot cause a false
// alarm.

import (
	"strconv"
	"bytes"
	"encoding/json"
	"fmt"
	"sort"
	"strings"

	appsv1 "k8s.io/api/apps/v1"
	v1 "k8s.io/api/core/v1"
	apierrors "k8s.io/apimachinery/pkg/api/errors"
	"k8s.io/apimachinery/pkg/labels"
	"k8s.io/apimachinery/pkg/types"

	asv1 "github.com/pingcap/advanced-statefulset/client/apis/apps/v1"
	"github.com/pingcap/advanced-statefulset/pkg/controller/statefulset"
)

// recView is the analysed form of a Reconcile.
type recView struct {
	rec         *Reconcile
	set         *asv1.StatefulSet // the set the control logic worked on (CtlSet) or the cached set
	D           map[int32]bool
	slots       map[int32]bool
	claimed     map[int32]*v1.Pod // by ordinal (ord >= 0)
	byName      map[string]*v1.Pod
	revs        map[string]*appsv1.ControllerRevision // every revision this reconcile saw
	listed      []*appsv1.ControllerRevision          // control-phase listing (dedup by name, first seen)
	listedN     map[string]int                        // how often each name was listed in the control phase
	listedFirst map[string]*appsv1.ControllerRevision
	updCand     map[string]bool
	tmpl        string
	ordered     bool
	rolling     bool
	onDelete    bool
	hasRU       bool
	part        int32
	deleting    bool
	anyFail     bool
}

func (s *Sim) checkReconcile(rec *Reconcile) {
	s.oracles.recEvals++
	s.count("oracle.reconciles_judged")
	// ---- C15: a panic escaping the worker
	if rec.Panic != nil {
		site := panicSite(rec.PanicStack)
		s.violate("C15", "C15.panic", site, fmt.Sprintf("reconcile of %s panicked: %v at %s", rec.Key, rec.Panic, site))
		return
	}
	for _, c := range rec.Calls {
		if c.IsWrite() {
			s.count("writes.controller")
			break
		}
	}
	if !rec.GotKey {
		return
	}
	// ---- queue bookkeeping (C09 / C16)
	if !rec.Crashed {
		s.checkBookkeeping(rec)
	}
	// ---- writes on the set resource: status subresource only (C10)
	for _, c := range rec.Calls {
		if c.Kind == KSet && c.IsWrite() && !(c.Verb == "update" && c.Sub == "status") {
			s.violate("C10", "C10.set-written", c.Verb+"/"+c.Sub, fmt.Sprintf("controller wrote the set through %s %s", c.Verb, c.Sub))
		}
		if c.Kind == KPVC && c.IsWrite() && c.Verb != "create" {
			s.violate("C06", "C06.claim-write", c.Verb, fmt.Sprintf("controller issued %s on claim %s", c.Verb, c.Name))
		}
	}
	if msg := s.checkShadows(); msg != "" {
		s.violate("C10", "C10.cache-mutated", strings.SplitN(msg, " ", 2)[0], "cached object differs from its shadow copy after reconcile: "+msg)
	}
	if rec.CacheSet == nil {
		// the set is not in the cache: nothing may be done
		for _, c := range rec.Calls {
			if c.IsWrite() {
				s.violate("C10", "C10.foreign-touched", "set-not-cached", fmt.Sprintf("write %s with no cached set", c))
			}
		}
		return
	}
	cs := rec.CacheSet
	// ---- C11 paused
	if cs.Annotations[annPaused] == "true" {
		s.count("probe.paused_skip")
		for _, c := range rec.Calls {
			if c.IsWrite() {
				s.violate("C11", "C11.paused-write", c.Verb+" "+c.Kind.String(), fmt.Sprintf("paused set %s: controller issued %s", cs.Name, c))
			}
		}
		return
	}
	v := s.view(rec)
	if v.deleting {
		s.count("probe.deleting_skip")
	}
	if rec.CtlCalled && rec.CtlSet != nil && rec.CtlSet.Annotations[annPaused] == "true" {
		// the pause gate looked at one version of the set and the control logic was
		// handed another, paused one
		for _, c := range rec.Calls[rec.CtlCallIdx:] {
			if c.IsWrite() {
				s.violate("C11", "C11.paused-write", "control-on-paused-snapshot", fmt.Sprintf("the control logic of %s ran on a snapshot that carries paused-reconcile=true and issued %s", cs.Name, c))
			}
		}
	}
	s.checkPreControl(v)
	if !rec.CtlCalled {
		return
	}
	s.checkClaimSet(v)
	s.checkPodActions(v)
	s.checkClaimsAndIdentity(v)
	s.checkStatusWrites(v)
	s.checkRevisions(v)
	s.checkTruncation(v)
	s.checkSwallowed(v)
	s.checkMigrationReconcile(v)
}

func panicSite(stack string) string {
	lines := strings.Split(stack, "\n")
	for _, l := range lines {
		l = strings.TrimSpace(l)
		if strings.HasPrefix(l, "github.com/pingcap/advanced-statefulset/") && !strings.Contains(l, "Verif") {
			if i := strings.LastIndex(l, "("); i > 0 {
				l = l[:i]
			}
			return strings.TrimPrefix(l, "github.com/pingcap/advanced-statefulset/")
		}
	}
	return "unknown"
}

func (s *Sim) view(rec *Reconcile) *recView {
	v := &recView{rec: rec, claimed: map[int32]*v1.Pod{}, byName: map[string]*v1.Pod{}, revs: map[string]*appsv1.ControllerRevision{}, listedN: map[string]int{}, updCand: map[string]bool{}, listedFirst: map[string]*appsv1.ControllerRevision{}}
	v.set = rec.CacheSet
	if rec.CtlSet != nil {
		v.set = rec.CtlSet
	}
	set := v.set
	v.slots = ModelSlots(set.Annotations)
	v.D = DesiredSet(specReplicas(set), v.slots)
	v.tmpl = templateContent(&set.Spec.Template)
	v.ordered = set.Spec.PodManagementPolicy != asv1.ParallelPodManagement
	v.rolling = set.Spec.UpdateStrategy.Type == asv1.RollingUpdateStatefulSetStrategyType
	v.onDelete = set.Spec.UpdateStrategy.Type == asv1.OnDeleteStatefulSetStrategyType
	if ru := set.Spec.UpdateStrategy.RollingUpdate; ru != nil {
		v.hasRU = true
		if ru.Partition != nil {
			v.part = *ru.Partition
		}
	}
	v.deleting = set.DeletionTimestamp != nil
	for _, c := range rec.Calls {
		if c.Kind == KSet && c.Verb == "get" && c.Err == nil && c.Out != nil && c.Out.GetDeletionTimestamp() != nil {
			v.deleting = true
		}
		if c.Err != nil {
			v.anyFail = true
		}
	}
	for _, p := range rec.Claimed {
		v.byName[p.Name] = p
		if parent, ord, ok := podOrdinal(p.Name); ok && parent == set.Name {
			v.claimed[ord] = p
		}
	}
	for i, c := range rec.Calls {
		if c.Kind != KRev {
			continue
		}
		if c.Verb == "list" && c.Err == nil {
			for _, o := range c.OutList {
				r := o.(*appsv1.ControllerRevision)
				v.revs[r.Name] = r
				if rec.CtlCalled && i >= rec.CtlCallIdx {
					if v.listedN[r.Name] == 0 {
						v.listed = append(v.listed, r)
						v.listedFirst[r.Name] = r
					}
					v.listedN[r.Name]++
				}
			}
		}
		if (c.Verb == "create" || c.Verb == "update" || c.Verb == "get" || c.Verb == "patch") && c.Err == nil && c.Out != nil {
			r := c.Out.(*appsv1.ControllerRevision)
			v.revs[r.Name] = r
		}
	}
	for name, r := range v.revs {
		if t, ok := RevTemplate(r); ok && sameTemplate(t, v.tmpl) {
			v.updCand[name] = true
		}
	}
	return v
}

// ---- worker bookkeeping --------------------------------------------------------------

func (s *Sim) checkBookkeeping(rec *Reconcile) {
	var rl, fg, dn int
	for _, op := range rec.QueueOps {
		switch {
		case strings.HasPrefix(op, "AddRateLimited("+rec.Key+")"):
			rl++
		case strings.HasPrefix(op, "Forget("+rec.Key+")"):
			fg++
		case strings.HasPrefix(op, "Done("+rec.Key+")"):
			dn++
		}
	}
	bad := ""
	switch {
	case dn != 1:
		bad = fmt.Sprintf("Done called %d times", dn)
	case rl+fg != 1:
		bad = fmt.Sprintf("AddRateLimited=%d Forget=%d", rl, fg)
	case rec.CtlDone && rec.CtlErr != nil && rl != 1:
		bad = "control returned an error but the key was not re-added with backoff"
	case rec.CtlDone && rec.CtlErr == nil && fg != 1:
		bad = "control succeeded but the backoff was not cleared"
	}
	if bad != "" {
		s.violate("C16", "C16.queue-bookkeeping", strings.SplitN(bad, " ", 2)[0], fmt.Sprintf("reconcile of %s: %s (ops %v)", rec.Key, bad, rec.QueueOps))
	}
	if rl == 1 {
		s.count("probe.reconcile_failed")
	}
}

// ---- before the control logic: revision adoption, pod adoption / release ---------------

func isAdoptPatch(c *APICall) (bool, types.UID) {
	var p struct {
		Metadata struct {
			OwnerReferences []map[string]any `json:"ownerReferences"`
		} `json:"metadata"`
	}
	if json.Unmarshal(c.Patch, &p) != nil || len(p.Metadata.OwnerReferences) == 0 {
		return false, ""
	}
	r := p.Metadata.OwnerReferences[0]
	if r["$patch"] == "delete" {
		return false, types.UID(fmt.Sprint(r["uid"]))
	}
	return true, types.UID(fmt.Sprint(r["uid"]))
}

func (s *Sim) checkPreControl(v *recView) {
	rec := v.rec
	cs := rec.CacheSet
	sel, selErr := setSelector(cs)
	end := len(rec.Calls)
	if rec.CtlCalled {
		end = rec.CtlCallIdx
	}
	cached := map[string]*v1.Pod{}
	for _, p := range rec.CachePods {
		cached[p.Name] = p
	}
	freshOK := false // a successful uncached GET of the set with the same UID and no deletionTimestamp
	freshSeen := false
	// what this reconcile knew about deletion *before* each call: the cached set,
	// then every uncached read that preceded the call
	deletingNow := cs.DeletionTimestamp != nil
	seenRev := map[string]*appsv1.ControllerRevision{} // revisions as this reconcile last saw them
	okRev := map[string]bool{}                         // seen at least once as an orphan or as controlled by this set
	noteRev := func(r *appsv1.ControllerRevision) {
		seenRev[r.Name] = r
		if ref := controllerOf(r); ref == nil || ref.UID == cs.UID {
			okRev[r.Name] = true
		}
	}
	reRead := map[string]*appsv1.ControllerRevision{} // revisions this reconcile read again, one by one
	for _, c := range rec.Calls[:end] {
		if c.Kind == KRev && c.Err == nil {
			for _, o := range c.OutList {
				noteRev(o.(*appsv1.ControllerRevision))
			}
			if c.Verb == "get" && c.Out != nil {
				reRead[c.Name] = c.Out.(*appsv1.ControllerRevision)
			}
		}
		switch {
		case c.Kind == KSet && c.Verb == "get":
			freshSeen = true
			if c.Err == nil && c.Out != nil && c.Out.GetUID() == cs.UID && c.Out.GetDeletionTimestamp() != nil {
				deletingNow = true
			}
			if c.Err == nil && c.Out != nil && c.Out.GetUID() == cs.UID && c.Out.GetDeletionTimestamp() == nil {
				freshOK = true
			} else {
				freshOK = false
				s.count("probe.adoption_refused_by_fresh_read")
			}
		case c.Kind == KPod && c.Verb == "patch":
			adopt, uid := isAdoptPatch(c)
			p := cached[c.Name]
			if p == nil {
				s.violate("C10", "C10.foreign-touched", "patch-uncached-pod", fmt.Sprintf("patch on pod %s that was not in the cache listing", c.Name))
				continue
			}
			if pre, ok := c.Pre.(*v1.Pod); ok && pre != nil && c.Applied && pre.UID != p.UID {
				// the decision was made about the cached pod; the name has since passed to
				// another object
				s.violate("C10", "C10.foreign-touched", "patch-on-recreated-pod", fmt.Sprintf("patch decided for pod %s (uid %s) was applied to another pod of that name (uid %s)", c.Name, p.UID, pre.UID))
			}
			ref := controllerOf(p)
			// "its name is S-<ordinal>": the digits must be an ordinal (an int32, as
			// replicas and slots are)
			parent, _, isOrd := podOrdinal(p.Name)
			match := selErr == nil && sel.Matches(labels.Set(p.Labels)) && isOrd && parent == cs.Name
			if deletingNow {
				// how the reconcile knew: from its cached set, or only from an uncached read
				how := "-after-fresh-read"
				if cs.DeletionTimestamp != nil {
					how = "-cached-deleting"
				}
				s.violate("C11", "C11.deleting-adoption", "pod-"+map[bool]string{true: "adopt", false: "release"}[adopt]+how, fmt.Sprintf("set %s is being deleted but pod %s was patched (%s)", cs.Name, c.Name, string(c.Patch)))
			}
			if adopt {
				s.count("probe.adoption")
				if uid != cs.UID {
					s.violate("C10", "C10.foreign-touched", "adopt-for-other-uid", fmt.Sprintf("adoption patch on %s names owner UID %s, the set's is %s", c.Name, uid, cs.UID))
				}
				if ref != nil {
					s.violate("C10", "C10.foreign-touched", "adopt-owned-pod", fmt.Sprintf("adoption patch on pod %s which is controlled by %s/%s", c.Name, ref.Kind, ref.UID))
				}
				if !match {
					s.violate("C10", "C10.claim-set", "adopt-nonmatching", fmt.Sprintf("adopted pod %s which does not match selector/name of %s", c.Name, cs.Name))
				}
				if p.DeletionTimestamp != nil {
					s.violate("C10", "C10.claim-set", "adopt-terminating", fmt.Sprintf("adopted terminating pod %s", c.Name))
				}
				if !freshOK {
					why := "no uncached read of the set before the adoption"
					if freshSeen {
						why = "the uncached read did not confirm the set (error, other UID or deletionTimestamp)"
					}
					s.violate("C10", "C10.adopt-without-fresh-read", "pod", fmt.Sprintf("adoption of pod %s: %s", c.Name, why))
					if c.SetDeletingAtCall && c.Applied {
						// and the set did carry a deletion timestamp: a set being deleted adopted a pod
						// because nothing confirmed the opposite
						s.violate("C11", "C11.deleting-adoption", "pod-adopt-unconfirmed", fmt.Sprintf("set %s carries a deletion timestamp in the API and adopted pod %s; %s", cs.Name, c.Name, why))
					}
				}
			} else {
				s.count("probe.release")
				if ref == nil || ref.UID != cs.UID {
					s.violate("C10", "C10.foreign-touched", "release-foreign", fmt.Sprintf("release patch on pod %s not controlled by this set", c.Name))
				} else if match {
					s.violate("C10", "C10.claim-set", "release-matching", fmt.Sprintf("released pod %s although it still matches", c.Name))
				}
			}
		case c.Kind == KPod && c.IsWrite():
			// no pod create/delete/update may happen before the control logic
			if c.Verb == "delete" {
				s.violate("C10", "C10.release-by-delete", "pre-control", fmt.Sprintf("pod %s deleted while claiming pods", c.Name))
			} else {
				s.violate("C10", "C10.foreign-touched", "pre-control-"+c.Verb, fmt.Sprintf("unexpected %s", c))
			}
		case c.Kind == KRev && c.IsWrite():
			// label sync (update) or adoption (patch) of revisions
			// judged on the revision as this reconcile last saw it (its listing),
			// not on what it has become since
			if pre := seenRev[c.Name]; pre != nil {
				if r := controllerOf(pre); r != nil && r.UID != cs.UID && !okRev[c.Name] {
					s.violate("C10", "C10.foreign-touched", "revision-"+c.Verb, fmt.Sprintf("%s on revision %s controlled by %s %s", c.Verb, c.Name, r.Kind, r.UID))
				}
			} else {
				s.violate("C10", "C10.foreign-touched", "revision-unlisted-"+c.Verb, fmt.Sprintf("%s on revision %s which this reconcile never listed", c.Verb, c.Name))
			}
			// a revision the reconcile has just read again and found in other hands
			if rr := reRead[c.Name]; rr != nil {
				if r := controllerOf(rr); r != nil && r.UID != cs.UID {
					s.violate("C10", "C10.foreign-touched", "revision-"+c.Verb+"-after-reread", fmt.Sprintf("%s on revision %s although the reconcile's own re-read showed it controlled by %s %s", c.Verb, c.Name, r.Kind, r.UID))
				}
			}
			if c.Err == nil && c.Out != nil {
				noteRev(c.Out.(*appsv1.ControllerRevision))
				delete(reRead, c.Name)
			}
			if deletingNow {
				how := "-after-fresh-read"
				if cs.DeletionTimestamp != nil {
					how = "-cached-deleting"
				}
				s.violate("C11", "C11.deleting-adoption", "revision-"+c.Verb+how, fmt.Sprintf("set %s is being deleted but revision %s was written (%s)", cs.Name, c.Name, c.Verb))
			}
			if c.Verb == "patch" {
				s.count("probe.revision_adoption")
				if !freshOK {
					s.violate("C10", "C10.adopt-without-fresh-read", "revision", fmt.Sprintf("adoption of revision %s without a confirming uncached read of the set", c.Name))
				}
			}
			if c.Verb == "delete" {
				s.violate("C13", "C13.delete-foreign", "pre-control", fmt.Sprintf("revision %s deleted outside history truncation", c.Name))
			}
		}
	}
}

// ---- C10: the claimed set -----------------------------------------------------------------

func (s *Sim) checkClaimSet(v *recView) {
	rec := v.rec
	cs := rec.CacheSet
	if !rec.CachePodsRead {
		return
	}
	sel, err := setSelector(cs)
	if err != nil {
		return
	}
	adopted := map[string]bool{}
	for _, c := range rec.Calls[:rec.CtlCallIdx] {
		if c.Kind == KPod && c.Verb == "patch" && c.Err == nil {
			if a, _ := isAdoptPatch(c); a {
				adopted[c.Name] = true
			}
		}
	}
	want := map[string]bool{}
	for _, p := range rec.CachePods {
		parent, _, isOrd := podOrdinal(p.Name)
		member := isOrd && parent == cs.Name
		match := sel.Matches(labels.Set(p.Labels)) && member
		ref := controllerOf(p)
		switch {
		case ref != nil && ref.UID == cs.UID && match:
			want[p.Name] = true
		case ref == nil && match && cs.DeletionTimestamp == nil && p.DeletionTimestamp == nil && adopted[p.Name]:
			want[p.Name] = true
		}
	}
	got := map[string]bool{}
	for _, p := range rec.Claimed {
		got[p.Name] = true
	}
	for _, n := range sortedKeys(got) {
		if !want[n] {
			s.violate("C10", "C10.claim-set", "claimed-extra", fmt.Sprintf("set %s claimed pod %s which the model does not (owner/labels/name/adoption)", cs.Name, n))
		}
	}
	for _, n := range sortedKeys(want) {
		if !got[n] {
			s.violate("C10", "C10.claim-set", "claimed-missing", fmt.Sprintf("set %s did not claim pod %s", cs.Name, n))
		}
	}
}

// ---- pod creates / deletes: C01 C03 C04 C05 C07 C11 C14 --------------------------------------

type podAct struct {
	call  *APICall
	ord   int32
	class string // create, scale-in, replace, update, unjustified
}

func (s *Sim) checkPodActions(v *recView) {
	rec, set := v.rec, v.set
	var acts []podAct
	deletedOK := map[int32]bool{} // ordinals whose delete call succeeded in this reconcile
	failedBetween := false
	K := map[int32]*v1.Pod{} // condemned: claimed pods with ord >= 0 not in D
	for ord, p := range v.claimed {
		if !v.D[ord] {
			K[ord] = p
		}
	}
	if len(K) > 0 {
		for ord := range K {
			for d := range v.D {
				if ord < d {
					s.count("probe.condemned_below_desired")
				}
			}
			if v.slots[ord] {
				s.count("probe.scale_in_at_slot")
			}
		}
	}
	for _, c := range rec.Calls[rec.CtlCallIdx:] {
		if c.Kind != KPod || !c.IsWrite() {
			if c.Err != nil {
				failedBetween = true
			}
			continue
		}
		if v.deleting {
			s.violate("C11", "C11.deleting-write", c.Verb+" pods", fmt.Sprintf("set %s is being deleted but the controller issued %s", set.Name, c))
		}
		parent, ord, ok := podOrdinal(c.Name)
		switch c.Verb {
		case "create":
			a := podAct{call: c, ord: ord, class: "create"}
			acts = append(acts, a)
			if !ok || parent != set.Name {
				s.violate("C04", "C04.create-not-desired", "bad-name", fmt.Sprintf("created pod %s whose name is not %s-<ordinal>", c.Name, set.Name))
				continue
			}
			if v.slots[ord] {
				s.violate("C04", "C04.create-not-desired", "slot", fmt.Sprintf("created pod %s at a delete slot (annotation %q)", c.Name, set.Annotations[annSlots]))
			} else if !v.D[ord] {
				s.violate("C04", "C04.create-not-desired", "outside", fmt.Sprintf("created pod %s outside the desired ordinals %v (replicas=%d slots=%q)", c.Name, sortedOrdinals(v.D), specReplicas(set), set.Annotations[annSlots]))
			}
			if p, occupied := v.claimed[ord]; occupied {
				if !(podTerminal(p) && deletedOK[ord]) {
					s.violate("C04", "C04.create-occupied", string(p.Status.Phase), fmt.Sprintf("created pod %s although ordinal %d holds a %s pod in the snapshot", c.Name, ord, p.Status.Phase))
				}
			}
			if set.DeletionTimestamp != nil {
				s.violate("C04", "C04.create-deleting-set", "create", fmt.Sprintf("created pod %s for a set with a deletionTimestamp", c.Name))
			}
			s.checkCreatedRevision(v, c, ord)
		case "delete":
			p := v.byName[c.Name]
			a := podAct{call: c, ord: ord}
			switch {
			case p == nil:
				a.class = "unjustified"
				s.violate("C03", "C03.delete-unjustified", "not-claimed", fmt.Sprintf("deleted pod %s which is not among the claimed pods", c.Name))
				if v.ordered && len(K) > 0 {
					// the pass had a pod of its own to scale in and took down something else
					s.violate("C05", "C05.scale-in-order", "not-own-pod", fmt.Sprintf("deleted pod %s, which this reconcile of %s never claimed, while its own condemned pods %v are still present", c.Name, set.Name, podNames(mapVals(K))))
				}
			case !ok || parent != set.Name:
				a.class = "unjustified"
				s.violate("C03", "C03.delete-unjustified", "bad-name", fmt.Sprintf("deleted pod %s whose ordinal cannot be read", c.Name))
			case !v.D[ord]:
				a.class = "scale-in"
				if v.slots[ord] {
					s.count("probe.delete_at_slot")
				}
			case podTerminal(p):
				a.class = "replace"
				s.count("probe.failed_pod_replacement")
			case v.outdated(podRevision(p)) && !podTerminating(p):
				a.class = "update"
				s.count("probe.update_delete")
				if v.onDelete {
					s.violate("C07", "C07.ondelete-restart", "delete", fmt.Sprintf("OnDelete strategy but pod %s (revision %s) was deleted for its revision", c.Name, podRevision(p)))
					s.violate("C03", "C03.delete-unjustified", "outdated-under-ondelete", fmt.Sprintf("deleted live desired pod %s whose only defect is its revision %s, under OnDelete", c.Name, podRevision(p)))
				} else if ord < v.part && v.hasRU {
					s.violate("C07", "C07.below-partition", "delete", fmt.Sprintf("pod %s deleted for update below partition %d", c.Name, v.part))
					s.violate("C03", "C03.delete-unjustified", "outdated-below-partition", fmt.Sprintf("deleted live desired pod %s whose only defect is its revision %s, below partition %d", c.Name, podRevision(p), v.part))
				}
			default:
				a.class = "unjustified"
				why := "up to date, live and inside the desired set"
				if podTerminating(p) {
					why = "already terminating and inside the desired set"
				}
				s.violate("C03", "C03.delete-unjustified", "live-desired", fmt.Sprintf("deleted pod %s which is %s (D=%v, revision %s)", c.Name, why, sortedOrdinals(v.D), podRevision(p)))
			}
			if c.Err == nil {
				deletedOK[ord] = true
			}
			acts = append(acts, a)
		case "update":
			if v.byName[c.Name] == nil {
				s.violate("C10", "C10.foreign-touched", "update-unclaimed-pod", fmt.Sprintf("updated pod %s which is not claimed", c.Name))
			}
		case "patch":
			s.violate("C10", "C10.foreign-touched", "patch-in-control", fmt.Sprintf("unexpected pod patch %s in the control phase", c.Name))
		}
	}
	_ = failedBetween
	// replacement must be followed by a create at the same ordinal unless a call failed
	for i, a := range acts {
		if a.class != "replace" || a.call.Err != nil {
			continue
		}
		followed := false
		for _, b := range acts[i+1:] {
			if b.class == "create" && b.ord == a.ord {
				followed = true
			}
			break
		}
		if !followed && !v.anyFail && !rec.Crashed && rec.CtlDone && rec.CtlErr == nil {
			s.violate("C03", "C03.delete-unjustified", "replace-not-recreated", fmt.Sprintf("terminal pod %s deleted but not re-created in the same reconcile", a.call.Name))
		}
	}
	allDHealthy := true
	for ord := range v.D {
		p, okp := v.claimed[ord]
		if !okp || !podHealthy(p) {
			allDHealthy = false
		}
	}
	// ---- C05 OrderedReady
	if v.ordered {
		touched := map[int32]bool{}
		for _, a := range acts {
			touched[a.ord] = true
		}
		if len(touched) > 1 {
			s.violate("C05", "C05.multi-ordinal", fmt.Sprint(len(touched)), fmt.Sprintf("OrderedReady reconcile of %s touched ordinals %v", set.Name, keysOf(touched)))
		}
		for _, a := range acts {
			switch a.class {
			case "create":
				for _, j := range sortedOrdinals(v.D) {
					if j >= a.ord {
						continue
					}
					p, okp := v.claimed[j]
					if !okp || !podHealthy(p) {
						// the predecessor may be the terminal pod replaced in this very reconcile (same ordinal only)
						st := "absent"
						if okp {
							st = fmt.Sprintf("%s ready=%v terminating=%v", p.Status.Phase, podReady(p), podTerminating(p))
						}
						s.violate("C05", "C05.create-predecessor", "create", fmt.Sprintf("created %s while predecessor ordinal %d is %s", a.call.Name, j, st))
						break
					}
				}
			case "scale-in":
				if !allDHealthy {
					s.violate("C05", "C05.scale-in-order", "desired-unhealthy", fmt.Sprintf("deleted condemned pod %s while a desired pod is missing or unhealthy", a.call.Name))
				}
				top := int32(-1)
				for ord := range K {
					if ord > top {
						top = ord
					}
				}
				if a.ord != top {
					s.violate("C05", "C05.scale-in-order", "not-highest", fmt.Sprintf("deleted condemned pod %s but the highest condemned ordinal is %d", a.call.Name, top))
				} else if podTerminating(K[top]) {
					s.violate("C05", "C05.scale-in-order", "terminating", fmt.Sprintf("deleted condemned pod %s which is already terminating", a.call.Name))
				}
			case "update":
				if len(K) > 0 || !allDHealthy {
					s.violate("C05", "C05.update-while-busy", map[bool]string{true: "condemned-left", false: "unhealthy"}[len(K) > 0], fmt.Sprintf("pod %s taken down for update while %d condemned pods remain / all desired healthy=%v", a.call.Name, len(K), allDHealthy))
				}
			}
		}
	}
	// ---- C07 successor rule (both policies)
	nUpd := 0
	for _, a := range acts {
		if a.class != "update" {
			continue
		}
		nUpd++
		for _, j := range sortedOrdinals(v.D) {
			if j <= a.ord {
				continue
			}
			p, okp := v.claimed[j]
			if !okp || !podHealthy(p) || !v.updCand[podRevision(p)] {
				st := "absent from the snapshot"
				if okp {
					st = fmt.Sprintf("%s ready=%v terminating=%v revision=%s", p.Status.Phase, podReady(p), podTerminating(p), podRevision(p))
				}
				s.violate("C07", "C07.successor-not-ready", "delete", fmt.Sprintf("pod %s deleted for update while higher ordinal %d is %s", a.call.Name, j, st))
				break
			}
		}
	}
	if nUpd > 1 {
		s.violate("C14", "C14.multi-update", fmt.Sprint(nUpd), fmt.Sprintf("%d pods taken down for update in one reconcile", nUpd))
	}
	// ---- C14 Parallel completeness ("absent API errors": a reconcile in which no
	// call and no cache lookup failed owes every creation and deletion, whether or
	// not it reports an error of its own making)
	failedBeforeStatus := false // the status write comes after every pod action: its failure excuses none
	for _, c := range rec.Calls {
		if c.Err != nil && !(c.Kind == KSet && c.Sub == "status") {
			failedBeforeStatus = true
		}
	}
	if !v.ordered && !v.deleting && !failedBeforeStatus && len(rec.ListerFaults) == 0 && !rec.Crashed && rec.CtlDone {
		if rec.CtlErr != nil {
			s.count("probe.parallel_error_without_failed_call")
		}
		created := map[int32]bool{}
		deleted := map[int32]bool{}
		for _, a := range acts {
			if a.class == "create" {
				created[a.ord] = true
			} else {
				deleted[a.ord] = true
			}
		}
		for _, ord := range sortedOrdinals(v.D) {
			p, okp := v.claimed[ord]
			if !okp && !created[ord] {
				s.violate("C14", "C14.incomplete", "create", fmt.Sprintf("Parallel: vacant desired ordinal %d of %s not created in this reconcile", ord, set.Name))
			}
			if okp && podTerminal(p) && !(deleted[ord] && created[ord]) {
				s.violate("C14", "C14.incomplete", "replace", fmt.Sprintf("Parallel: terminal pod at ordinal %d not replaced in this reconcile", ord))
			}
		}
		var kOrds []int32
		for ord := range K {
			kOrds = append(kOrds, ord)
		}
		sort.Slice(kOrds, func(i, j int) bool { return kOrds[i] < kOrds[j] })
		for _, ord := range kOrds {
			p := K[ord]
			if !podTerminating(p) && !deleted[ord] {
				s.violate("C14", "C14.incomplete", "delete", fmt.Sprintf("Parallel: condemned pod %s not deleted in this reconcile", p.Name))
			}
		}
		if len(v.D)+len(K) > 0 {
			s.count("probe.parallel_reconcile_checked")
		}
	}
}

func keysOf(m map[int32]bool) []int32 { return sortedOrdinals(m) }

func rvInt(rv string) int {
	n, err := strconv.Atoi(rv)
	if err != nil {
		return 0
	}
	return n
}

func mapVals(m map[int32]*v1.Pod) []*v1.Pod {
	var out []*v1.Pod
	for _, p := range m {
		out = append(out, p)
	}
	return out
}

// outdated: a pod label counts as outdated if it differs from *some* revision
// holding the current template. When several equal-content revisions exist the
// oracle does not depend on which one the implementation picked (DESIGN.md §4.3).
func (v *recView) outdated(label string) bool {
	if len(v.updCand) == 0 {
		return true
	}
	for c := range v.updCand {
		if c != label {
			return true
		}
	}
	return false
}

// checkCreatedRevision: C07 created pods below the partition come from the current
// revision, the others from the update revision (only when the rollingUpdate
// block is present under RollingUpdate).
func (s *Sim) checkCreatedRevision(v *recView, c *APICall, ord int32) {
	pod := c.In.(*v1.Pod)
	label := podRevision(pod)
	rev := v.revs[label]
	if rev == nil {
		s.violate("C06", "C06.identity", "revision-label-dangling", fmt.Sprintf("created pod %s labelled with revision %q which this reconcile never saw", pod.Name, label))
		return
	}
	// truthful label: the pod's template-derived content equals the revision's template
	if t, ok := RevTemplate(rev); ok {
		if msg := podMatchesTemplate(pod, t); msg != "" {
			s.violate("C06", "C06.identity", "revision-label-untruthful", fmt.Sprintf("created pod %s labelled %s but %s", pod.Name, label, msg))
			if v.rolling && v.hasRU {
				// C07: "built from" the current / update revision means content, not only the label
				side := "at-or-above-partition-content"
				if ord < v.part {
					side = "below-partition-content"
				}
				s.violate("C07", "C07.created-revision", side, fmt.Sprintf("pod %s (ordinal %d, partition %d) carries the label of revision %s but was not built from it: %s", pod.Name, ord, v.part, label, msg))
			}
		}
	}
	if !(v.rolling && v.hasRU) {
		return
	}
	cur := v.set.Status.CurrentRevision
	if ord >= v.part {
		if !v.updCand[label] {
			s.violate("C07", "C07.created-revision", "at-or-above-partition", fmt.Sprintf("pod %s (ordinal %d >= partition %d) created from revision %s which does not hold the current template", pod.Name, ord, v.part, label))
		}
	} else {
		s.count("probe.created_below_partition")
		if _, listed := v.listedN[cur]; listed && cur != "" && label != cur {
			s.violate("C07", "C07.created-revision", "below-partition", fmt.Sprintf("pod %s (ordinal %d < partition %d) created from revision %s, current revision is %s", pod.Name, ord, v.part, label, cur))
		}
		// the status may have been moved by a write that was not entitled to: the
		// reference model's current revision is what pods below the partition keep
		// (only for a reconcile whose cached set is at least as new as the write the
		// model last followed: an older view is merely stale)
		if mc := s.oracles.modelCur[string(v.set.UID)]; mc != "" && cur != "" && mc != cur && label != mc &&
			rvInt(v.set.ResourceVersion) >= s.oracles.modelCurRV[string(v.set.UID)] {
			if r := v.listedFirst[mc]; r != nil {
				if ref := controllerOf(r); ref != nil && ref.UID == v.set.UID {
					s.violate("C07", "C07.created-revision", "below-partition-after-unentitled-move", fmt.Sprintf("pod %s (ordinal %d < partition %d) created from revision %s; status.currentRevision says %s only because an earlier status write moved it without every pod being updated and Ready, the revision the held-back pods run is %s", pod.Name, ord, v.part, label, cur, mc))
				}
			}
		}
	}
}

// podMatchesTemplate compares the template-derived part of a created pod with
// a template (canonical JSON of a PodTemplateSpec). Returns "" when equal.
func podMatchesTemplate(pod *v1.Pod, tmplJSON string) string {
	var t v1.PodTemplateSpec
	if err := json.Unmarshal([]byte(tmplJSON), &t); err != nil {
		return ""
	}
	for k, x := range t.Labels {
		if pod.Labels[k] != x {
			return fmt.Sprintf("label %s=%q differs from the revision's %q", k, pod.Labels[k], x)
		}
	}
	for k := range pod.Labels {
		if _, ok := t.Labels[k]; !ok && k != lblPodName && k != lblRevision {
			return fmt.Sprintf("label %s is not in the revision's template", k)
		}
	}
	for k, x := range t.Annotations {
		if pod.Annotations[k] != x {
			return fmt.Sprintf("annotation %s differs", k)
		}
	}
	ps := pod.Spec.DeepCopy()
	ts := t.Spec.DeepCopy()
	ps.Hostname, ps.Subdomain, ps.Volumes = "", "", nil
	ts.Hostname, ts.Subdomain, ts.Volumes = "", "", nil
	if canonJSON(ps) != canonJSON(ts) {
		return "its spec differs from the revision's template spec"
	}
	return ""
}

// ---- C06 identity and storage -------------------------------------------------------------

func (s *Sim) checkClaimsAndIdentity(v *recView) {
	rec, set := v.rec, v.set
	failedClaimOrd := map[int32]string{}
	for _, k := range rec.ListerFaults {
		name := k[strings.Index(k, "/")+1:]
		if _, ord, ok := claimOrdinal(set, name); ok {
			failedClaimOrd[ord] = "lister failure for " + name
		}
	}
	for _, c := range rec.Calls[rec.CtlCallIdx:] {
		switch {
		case c.Kind == KPVC && c.Verb == "create":
			s.count("probe.claim_create")
			tn, ord, ok := claimOrdinal(set, c.Name)
			if !ok {
				s.violate("C06", "C06.identity", "claim-name", fmt.Sprintf("created claim %s which is not <template>-%s-<ordinal>", c.Name, set.Name))
				continue
			}
			_ = tn
			if c.Err != nil {
				failedClaimOrd[ord] = fmt.Sprintf("create of %s failed (%s)", c.Name, c.Reason())
				if apierrors.IsAlreadyExists(c.Err) {
					s.count("probe.claim_already_exists")
				}
			}
			in := c.In.(*v1.PersistentVolumeClaim)
			if set.Spec.Selector != nil {
				for k, x := range set.Spec.Selector.MatchLabels {
					if in.Labels[k] != x {
						s.violate("C06", "C06.identity", "claim-labels", fmt.Sprintf("created claim %s lacks selector label %s=%s", c.Name, k, x))
					}
				}
			}
			if in.Namespace != set.Namespace {
				s.violate("C06", "C06.identity", "claim-namespace", fmt.Sprintf("claim %s created in namespace %q", c.Name, in.Namespace))
			}
		case c.Kind == KPod && c.Verb == "update":
			// identity / storage repair of an adopted or drifted pod: the claims it is
			// bound to must exist before the pod is written, as for a create
			s.count("probe.pod_storage_repair")
			// only an update that (re)binds volumes to claims owes the claims (judged when
			// the write is issued, whatever its outcome); a repair of the identity labels
			// of a pod that came with its volumes does not. The baseline is the pod as this
			// reconcile saw it.
			rebinds := true
			if in, ok := c.In.(*v1.Pod); ok && in != nil {
				if seen := v.byName[c.Name]; seen != nil {
					rebinds = claimVolumes(seen) != claimVolumes(in)
				} else if pre, ok := c.Pre.(*v1.Pod); ok && pre != nil {
					rebinds = claimVolumes(pre) != claimVolumes(in)
				}
			}
			if len(c.MissingClaims) > 0 && rebinds {
				var own []string
				for _, m := range c.MissingClaims {
					if _, _, ok := claimOrdinal(set, m); ok {
						own = append(own, m)
					}
				}
				if len(own) > 0 {
					s.violate("C06", "C06.claim-before-pod", "update", fmt.Sprintf("pod %s written with volumes bound to claims %v that do not exist", c.Name, own))
				}
			}
		case c.Kind == KPod && c.Verb == "create":
			pod := c.In.(*v1.Pod)
			_, ord, ok := podOrdinal(pod.Name)
			if !ok {
				continue
			}
			if why, bad := failedClaimOrd[ord]; bad {
				s.violate("C06", "C06.claim-failed-pod-created", "create", fmt.Sprintf("pod %s created although %s", pod.Name, why))
			}
			if c.Applied || c.Err == nil {
				if len(c.MissingClaims) > 0 {
					s.violate("C06", "C06.claim-before-pod", "missing", fmt.Sprintf("pod %s created while its claims %v do not exist", pod.Name, c.MissingClaims))
				}
			}
			if msg := identityDefect(set, pod, ord); msg != "" {
				s.violate("C06", "C06.identity", strings.SplitN(msg, ":", 2)[0], fmt.Sprintf("created pod %s: %s", pod.Name, msg))
			}
		}
	}
}

// sameRepair: two pod writes carry the same identity and storage (the things a
// pod update of the controller exists to repair).
func sameRepair(a, b Obj) bool {
	pa, ok1 := a.(*v1.Pod)
	pb, ok2 := b.(*v1.Pod)
	if !ok1 || !ok2 || pa == nil || pb == nil {
		return true
	}
	return pa.Labels[lblPodName] == pb.Labels[lblPodName] && pa.Spec.Hostname == pb.Spec.Hostname &&
		pa.Spec.Subdomain == pb.Spec.Subdomain && claimVolumes(pa) == claimVolumes(pb)
}

// claimVolumes renders the claim-backed volumes of a pod (name=claim, in order).
func claimVolumes(p *v1.Pod) string {
	var out []string
	for _, vol := range p.Spec.Volumes {
		if vol.PersistentVolumeClaim != nil {
			out = append(out, vol.Name+"="+vol.PersistentVolumeClaim.ClaimName)
		}
	}
	return strings.Join(out, ",")
}

func claimOrdinal(set *asv1.StatefulSet, claim string) (string, int32, bool) {
	for _, t := range set.Spec.VolumeClaimTemplates {
		pre := t.Name + "-" + set.Name + "-"
		if strings.HasPrefix(claim, pre) {
			if _, ord, ok := podOrdinal("x-" + claim[len(pre):]); ok && !strings.Contains(claim[len(pre):], "-") {
				return t.Name, ord, true
			}
		}
	}
	return "", -1, false
}

func identityDefect(set *asv1.StatefulSet, pod *v1.Pod, ord int32) string {
	want := fmt.Sprintf("%s-%d", set.Name, ord)
	if pod.Name != want {
		return "name: " + pod.Name
	}
	if pod.Namespace != "" && pod.Namespace != set.Namespace {
		return "namespace: " + pod.Namespace
	}
	if pod.Spec.Hostname != want {
		return fmt.Sprintf("hostname: %q", pod.Spec.Hostname)
	}
	if pod.Spec.Subdomain != set.Spec.ServiceName {
		return fmt.Sprintf("subdomain: %q want %q", pod.Spec.Subdomain, set.Spec.ServiceName)
	}
	if pod.Labels[lblPodName] != want {
		return fmt.Sprintf("pod-name-label: %q", pod.Labels[lblPodName])
	}
	if pod.Labels[lblRevision] == "" {
		return "revision-label: missing"
	}
	n := 0
	for _, r := range pod.OwnerReferences {
		if r.Controller != nil && *r.Controller {
			n++
			if r.UID != set.UID || r.Kind != crdKind || r.APIVersion != crdAPIVersion || r.Name != set.Name {
				return fmt.Sprintf("owner: %s %s %s uid=%s", r.APIVersion, r.Kind, r.Name, r.UID)
			}
		}
	}
	if n != 1 {
		return fmt.Sprintf("owner: %d controller references", n)
	}
	for _, t := range set.Spec.VolumeClaimTemplates {
		found := false
		for _, vol := range pod.Spec.Volumes {
			if vol.Name == t.Name {
				found = true
				wantClaim := fmt.Sprintf("%s-%s-%d", t.Name, set.Name, ord)
				if vol.PersistentVolumeClaim == nil || vol.PersistentVolumeClaim.ClaimName != wantClaim {
					return fmt.Sprintf("volume: %s not bound to claim %s", t.Name, wantClaim)
				}
			}
		}
		if !found {
			return "volume: no volume for claim template " + t.Name
		}
	}
	return ""
}

// ---- C12 status writes ---------------------------------------------------------------------

func (s *Sim) checkStatusWrites(v *recView) {
	rec, set := v.rec, v.set
	for _, c := range rec.Calls[rec.CtlCallIdx:] {
		if !(c.Kind == KSet && c.Verb == "update" && c.Sub == "status") {
			continue
		}
		s.oracles.statusEvals++
		s.count("oracle.status_writes_judged")
		in := c.In.(*asv1.StatefulSet)
		st := in.Status
		if c.Err != nil && apierrors.IsConflict(c.Err) {
			s.count("probe.status_conflict_retry")
		}
		for _, f := range []struct {
			n string
			x int32
		}{{"readyReplicas", st.ReadyReplicas}, {"currentReplicas", st.CurrentReplicas}, {"updatedReplicas", st.UpdatedReplicas}} {
			if f.x < 0 || f.x > st.Replicas {
				s.violate("C12", "C12.bounds", f.n+map[bool]string{true: "-negative", false: "-above-replicas"}[f.x < 0], fmt.Sprintf("status write for %s: %s=%d replicas=%d", set.Name, f.n, f.x, st.Replicas))
			}
		}
		if st.Replicas < 0 {
			s.violate("C12", "C12.bounds", "replicas-negative", fmt.Sprintf("status write for %s: replicas=%d", set.Name, st.Replicas))
		}
		// "never counted": the pods a status counts are pods this reconcile claimed
		// or created itself (an upper bound; deletions only lower the count)
		created := 0
		for _, pc := range rec.Calls[rec.CtlCallIdx:] {
			if pc.Seq < c.Seq && pc.Kind == KPod && pc.Verb == "create" && pc.Err == nil {
				created++
			}
		}
		ready := 0
		for _, p := range rec.Claimed {
			if podRunningReady(p) {
				ready++
			}
		}
		if int(st.Replicas) > len(rec.Claimed)+created {
			s.violate("C10", "C10.foreign-counted", "replicas", fmt.Sprintf("status write for %s counts replicas=%d but the reconcile claimed %d pods and created %d", set.Name, st.Replicas, len(rec.Claimed), created))
		}
		if int(st.ReadyReplicas) > ready {
			s.violate("C10", "C10.foreign-counted", "readyReplicas", fmt.Sprintf("status write for %s counts readyReplicas=%d but only %d of the claimed pods are Running and Ready", set.Name, st.ReadyReplicas, ready))
		}
		if st.ObservedGeneration != set.Generation {
			s.violate("C12", "C12.generation", "not-reconciled-generation", fmt.Sprintf("status write for %s: observedGeneration=%d but the reconciled object has generation %d", set.Name, st.ObservedGeneration, set.Generation))
		}
		if c.Applied && c.Pre != nil {
			if stored := c.Pre.(*asv1.StatefulSet).Status.ObservedGeneration; st.ObservedGeneration < stored {
				s.violate("C12", "C12.generation", "lowered", fmt.Sprintf("status write for %s lowered observedGeneration from %d to %d", set.Name, stored, st.ObservedGeneration))
			}
		}
		old := set.Status.CurrentRevision
		known := false
		unentitled := false
		if r := v.listedFirst[old]; r != nil && old != "" {
			// "names an existing revision": one of this set's history (a same-named
			// revision still owned by a previous incarnation of the set is not)
			ref := controllerOf(r)
			known = ref == nil || ref.UID == set.UID
		}
		if known && st.CurrentRevision != old {
			s.count("probe.current_revision_advanced")
			ok := st.CurrentRevision == st.UpdateRevision
			why := ""
			if !ok {
				why = fmt.Sprintf("new currentRevision %s is not updateRevision %s", st.CurrentRevision, st.UpdateRevision)
			}
			for _, p := range rec.Claimed {
				if !v.updCand[podRevision(p)] || !podRunningReady(p) {
					ok = false
					why = fmt.Sprintf("pod %s is at revision %s, phase %s, ready=%v", p.Name, podRevision(p), p.Status.Phase, podReady(p))
					break
				}
			}
			if !ok {
				s.violate("C12", "C12.current-revision", strings.SplitN(why, " ", 2)[0], fmt.Sprintf("currentRevision of %s changed %s -> %s although %s", set.Name, old, st.CurrentRevision, why))
				unentitled = true
			}
		}
		// reference model of the current revision (oracleState.modelCur): it follows
		// every applied status write except a move the rule above rejects
		if c.Applied && !unentitled {
			uid := string(set.UID)
			s.oracles.modelCur[uid] = st.CurrentRevision
			if c.Out != nil {
				s.oracles.modelCurRV[uid] = rvInt(c.Out.GetResourceVersion())
			}
		}
	}
}

// ---- C08 revisions -----------------------------------------------------------------------------

// finalStatus is the status the reconcile left in force: its last successful
// write, or the observed one when it wrote nothing.
func (v *recView) finalStatus() (asv1.StatefulSetStatus, bool) {
	st := v.set.Status
	wrote := false
	for _, c := range v.rec.Calls[v.rec.CtlCallIdx:] {
		if c.Kind == KSet && c.Verb == "update" && c.Sub == "status" && c.Err == nil {
			st = c.In.(*asv1.StatefulSet).Status
			wrote = true
		}
	}
	return st, wrote
}

func (s *Sim) checkRevisions(v *recView) {
	rec, set := v.rec, v.set
	ownedEqual := map[string][]*appsv1.ControllerRevision{} // data -> listed owned revisions
	var maxRev int64
	for _, r := range v.listed {
		if ref := controllerOf(r); ref != nil && ref.UID == set.UID {
			ownedEqual[string(r.Data.Raw)] = append(ownedEqual[string(r.Data.Raw)], r)
		}
		if r.Revision > maxRev {
			maxRev = r.Revision
		}
	}
	for _, c := range rec.Calls[rec.CtlCallIdx:] {
		if c.Kind != KRev {
			continue
		}
		switch c.Verb {
		case "create":
			s.count("probe.revision_create")
			in := c.In.(*appsv1.ControllerRevision)
			if eq := ownedEqual[string(in.Data.Raw)]; len(eq) > 0 {
				s.violate("C08", "C08.spurious-revision", "equal-owned-listed", fmt.Sprintf("created revision %s although the listed owned revision %s holds identical data", in.Name, eq[0].Name))
			}
			if c.Err != nil && apierrors.IsAlreadyExists(c.Err) {
				s.count("probe.revision_create_already_exists")
			}
		case "update":
			s.count("probe.revision_rollback_renumber")
			if r := v.listedFirst[c.Name]; r != nil {
				if ref := controllerOf(r); ref != nil && ref.UID != set.UID {
					s.violate("C10", "C10.foreign-touched", "revision-renumber", fmt.Sprintf("renumbered revision %s which is controlled by %s %s", c.Name, ref.Kind, ref.UID))
				} else if ref == nil {
					s.violate("C10", "C10.foreign-touched", "revision-renumber-orphan", fmt.Sprintf("renumbered revision %s which the set has not adopted", c.Name))
				}
			} else {
				s.violate("C10", "C10.foreign-touched", "revision-renumber-unlisted", fmt.Sprintf("renumbered revision %s which was not listed", c.Name))
			}
		case "patch":
			s.violate("C10", "C10.foreign-touched", "revision-patch-in-control", fmt.Sprintf("unexpected revision patch %s", c.Name))
		}
	}
	if !(rec.CtlDone && rec.CtlErr == nil) || rec.Crashed {
		return
	}
	st, _ := v.finalStatus()
	upd := v.revs[st.UpdateRevision]
	if upd == nil {
		s.violate("C08", "C08.update-revision-mismatch", "not-stored", fmt.Sprintf("after a successful reconcile status.updateRevision=%q names no revision this reconcile saw", st.UpdateRevision))
		return
	}
	for _, c := range rec.Calls[rec.CtlCallIdx:] {
		if c.Kind == KRev && c.Verb == "delete" && c.Err == nil && c.Name == upd.Name {
			s.violate("C08", "C08.update-revision-mismatch", "deleted-in-same-reconcile", fmt.Sprintf("the reconcile that left status.updateRevision=%s also deleted that revision", upd.Name))
		}
	}
	if t, ok := RevTemplate(upd); !ok || t != v.tmpl {
		disc := "content"
		if ok && floatRounded(t) == floatRounded(v.tmpl) {
			disc = "int-above-2^53-rounded"
		}
		s.violate("C08", "C08.update-revision-mismatch", disc, fmt.Sprintf("updateRevision %s does not record the set's current template", upd.Name))
	} else if applied, err := statefulset.ApplyRevision(set, upd); err != nil || templateContent(&applied.Spec.Template) != v.tmpl {
		s.violate("C08", "C08.update-revision-mismatch", "apply", fmt.Sprintf("applying updateRevision %s to the set does not reproduce its template (err=%v)", upd.Name, err))
	}
	createdByName := false // reached through create -> AlreadyExists -> equal data, not picked from the listing
	for _, c := range rec.Calls[rec.CtlCallIdx:] {
		if c.Kind == KRev && c.Verb == "create" && c.Name == upd.Name {
			createdByName = true
		}
	}
	if r := v.listedFirst[upd.Name]; r != nil && !createdByName {
		if ref := controllerOf(r); ref == nil {
			s.violate("C10", "C10.foreign-touched", "update-revision-orphan", fmt.Sprintf("status.updateRevision %s is a revision the set has not adopted (another set may adopt it)", upd.Name))
		}
	}
	// rollback re-use: the update revision carries the highest revision number
	// (only meaningful when it is part of this set's own history)
	updMember := true
	if ref := controllerOf(upd); ref != nil && ref.UID != set.UID {
		updMember = false
	}
	for _, r := range v.listed {
		if !updMember {
			break
		}
		if ref := controllerOf(r); ref == nil || ref.UID != set.UID {
			continue // not part of this set's history
		}
		if r.Name != upd.Name && r.Revision > upd.Revision {
			s.violate("C08", "C08.rollback-reuse", "not-highest", fmt.Sprintf("updateRevision %s has revision %d but %s has %d", upd.Name, upd.Revision, r.Name, r.Revision))
			break
		}
	}
	// non-template edits keep the update revision
	key := string(set.UID)
	if last, ok := s.oracles.lastUpdRev[key]; ok && last.tmpl == v.tmpl && last.rev != upd.Name {
		// a duplicate revision injected by somebody else is not an edit of the set:
		// only a revision the controller itself created since then counts
		createdSince := false
		for _, c := range s.Calls {
			if c.Seq > last.seq && c.Kind == KRev && c.Verb == "create" && c.Err == nil && c.Out != nil && c.Out.GetName() == upd.Name && strings.HasPrefix(c.Actor, "w") {
				createdSince = true
			}
		}
		if _, still := v.listedN[last.rev]; still && createdSince {
			s.violate("C08", "C08.non-template-edit", "changed", fmt.Sprintf("template of %s unchanged but updateRevision went %s -> %s", set.Name, last.rev, upd.Name))
		}
	}
	if _, seen := s.oracles.lastUpdRev[key]; !seen {
		// first reconcile of a set that helper.Upgrade made out of a built-in one: the
		// built-in controller's record of the (unchanged) template is the previous
		// update revision; recording the template again under another name while that
		// record still exists is a revision without a template edit
		if mig := s.oracles.migrated[set.Name]; mig != nil && mig.tmpl == v.tmpl && mig.updName != upd.Name {
			old, exists := Peek[*appsv1.ControllerRevision](s.Store, KRev, set.Namespace, mig.updName)
			if exists {
				// a record that a third party has taken over is not the set's to re-use
				if ref := controllerOf(old); ref != nil && ref.UID != set.UID {
					exists = false
				}
			}
			if exists && string(old.Data.Raw) == mig.revData[mig.updName] {
				for _, c := range rec.Calls[rec.CtlCallIdx:] {
					if c.Kind == KRev && c.Verb == "create" && c.Err == nil && c.Out != nil && c.Out.GetName() == upd.Name {
						s.violate("C08", "C08.non-template-edit", "after-migration", fmt.Sprintf("template of the migrated set %s unchanged, its record %s still exists, but the controller recorded it again as %s", set.Name, mig.updName, upd.Name))
					}
				}
			}
		}
	}
	s.oracles.lastUpdRev[key] = updRevObs{tmpl: v.tmpl, rev: upd.Name, seq: s.seq}
	// collision: a create that hit a different revision under the same name must bump collisionCount
	for i, c := range rec.Calls[rec.CtlCallIdx:] {
		if c.Kind == KRev && c.Verb == "create" && c.Err != nil && apierrors.IsAlreadyExists(c.Err) {
			rest := rec.Calls[rec.CtlCallIdx+i+1:]
			if len(rest) > 0 && rest[0].Kind == KRev && rest[0].Verb == "get" && rest[0].Err == nil {
				ex := rest[0].Out.(*appsv1.ControllerRevision)
				if !bytes.Equal(ex.Data.Raw, c.In.(*appsv1.ControllerRevision).Data.Raw) {
					s.count("probe.collision_loop")
					if upd.Name == ex.Name {
						s.violate("C08", "C08.collision-overwrite", "same-name", fmt.Sprintf("revision name %s is held by different data but was used as the update revision", ex.Name))
					}
					oldCC := int32(0)
					if set.Status.CollisionCount != nil {
						oldCC = *set.Status.CollisionCount
					}
					if st.CollisionCount == nil || *st.CollisionCount <= oldCC {
						s.violate("C08", "C08.collision-overwrite", "count", fmt.Sprintf("name collision on %s but collisionCount did not grow", ex.Name))
					}
				}
			}
		}
	}
}

// ---- C13 history truncation -------------------------------------------------------------------

func (s *Sim) checkTruncation(v *recView) {
	rec, set := v.rec, v.set
	var dels []*APICall
	for _, c := range rec.Calls[rec.CtlCallIdx:] {
		if c.Kind == KRev && c.Verb == "delete" {
			dels = append(dels, c)
		}
	}
	st, _ := v.finalStatus()
	live := map[string]bool{st.CurrentRevision: true, st.UpdateRevision: true}
	// the revisions the control logic itself treated as current/update before
	// completing a rollout stay live for this reconcile as well
	live[set.Status.CurrentRevision] = true
	for _, p := range rec.Claimed {
		live[podRevision(p)] = true
	}
	for _, c := range rec.Calls[rec.CtlCallIdx:] {
		if c.Kind == KPod && c.Verb == "create" {
			live[podRevision(c.In.(*v1.Pod))] = true
		}
	}
	var unused []*appsv1.ControllerRevision
	member := func(r *appsv1.ControllerRevision) bool {
		// the set's history in the control phase: revisions it controls (orphans are
		// adopted before, or left for the next reconcile)
		ref := controllerOf(r)
		return ref != nil && ref.UID == set.UID
	}
	for _, r := range v.listed {
		if member(r) && !live[r.Name] {
			unused = append(unused, r)
		}
		if v.listedN[r.Name] > 1 {
			s.count("probe.revision_listed_twice")
		}
	}
	sort.SliceStable(unused, func(i, j int) bool {
		a, b := unused[i], unused[j]
		if a.Revision != b.Revision {
			return a.Revision < b.Revision
		}
		if !a.CreationTimestamp.Equal(&b.CreationTimestamp) {
			return a.CreationTimestamp.Before(&b.CreationTimestamp)
		}
		return a.Name < b.Name
	})
	limit := 0
	if set.Spec.RevisionHistoryLimit != nil {
		limit = int(*set.Spec.RevisionHistoryLimit)
	}
	seen := map[string]bool{}
	i := -1
	for _, c := range dels {
		s.count("probe.history_truncation")
		if seen[c.Name] {
			s.violate("C13", "C13.double", "delete", fmt.Sprintf("revision %s is the target of two deletes in one reconcile", c.Name))
			continue
		}
		seen[c.Name] = true
		r := v.revs[c.Name]
		if r == nil {
			s.violate("C13", "C13.delete-foreign", "unknown", fmt.Sprintf("deleted revision %s which was never listed", c.Name))
			continue
		}
		if r2 := v.listedFirst[c.Name]; r2 != nil {
			r = r2
		}
		if !member(r) {
			if ref := controllerOf(r); ref != nil {
				s.violate("C13", "C13.delete-foreign", "other-owner", fmt.Sprintf("deleted revision %s controlled by %s/%s", c.Name, ref.Kind, ref.UID))
			} else {
				s.violate("C13", "C13.delete-foreign", "orphan", fmt.Sprintf("deleted revision %s which the set has not adopted", c.Name))
			}
			continue
		}
		if live[c.Name] {
			s.violate("C13", "C13.delete-live", "delete", fmt.Sprintf("deleted revision %s which is current, update or used by a pod", c.Name))
			continue
		}
		// a pod of the set at a desired ordinal that exists in the API but is missing
		// from the pod list this reconcile worked on: the create that such a pass
		// attempts for that ordinal is answered AlreadyExists, and a pass that goes on
		// to trim history anyway trims on a list it knows to be incomplete
		for _, pn := range sortedKeys(c.LivePodRevs) {
			if c.LivePodRevs[pn] != c.Name || v.byName[pn] != nil {
				continue
			}
			if parent, ord, ok := podOrdinal(pn); ok && parent == set.Name && v.D[ord] {
				sawExists := false
				for _, pc := range rec.Calls[rec.CtlCallIdx:] {
					if pc.Kind == KPod && pc.Verb == "create" && pc.Name == pn && pc.Err != nil && apierrors.IsAlreadyExists(pc.Err) {
						sawExists = true
					}
				}
				if sawExists {
					s.violate("C13", "C13.delete-live", "pod-known-to-exist", fmt.Sprintf("deleted revision %s which pod %s runs; the pod was missing from the cached list, but this reconcile had learned that it exists (its create was answered AlreadyExists)", c.Name, pn))
				}
			}
		}
		i++
		if len(unused) <= limit {
			s.violate("C13", "C13.under-limit", "delete", fmt.Sprintf("deleted revision %s although only %d unused owned revisions exist (limit %d)", c.Name, len(unused), limit))
			continue
		}
		if i < len(unused) && unused[i].Name != c.Name {
			s.violate("C13", "C13.order", "delete", fmt.Sprintf("delete #%d targets %s but the oldest unused revision is %s", i+1, c.Name, unused[i].Name))
		}
		if i >= len(unused)-limit {
			s.violate("C13", "C13.under-limit", "too-many", fmt.Sprintf("delete #%d (%s) leaves fewer than the limit of %d unused revisions", i+1, c.Name, limit))
		}
	}
	if rec.CtlDone && rec.CtlErr == nil && !rec.Crashed {
		okDeleted := 0
		for _, c := range dels {
			if c.Err == nil {
				okDeleted++
			}
		}
		if len(unused)-okDeleted > limit {
			s.violate("C13", "C13.over-limit-left", "left", fmt.Sprintf("successful reconcile of %s left %d unused owned revisions (limit %d)", set.Name, len(unused)-okDeleted, limit))
		}
	}
}

// ---- C09 swallowed failures -------------------------------------------------------------------

func (s *Sim) checkSwallowed(v *recView) {
	rec := v.rec
	if rec.Crashed {
		return
	}
	known, failed := rec.Failed()
	if !known || failed {
		return
	}
	for i, c := range rec.Calls {
		if c.Err == nil {
			continue
		}
		if !c.IsWrite() {
			// a failed read fails the reconcile as well, with one exception: the re-read
			// after a failed revision update (its outcome is carried by the update itself)
			if c.Kind == KRev && c.Verb == "get" && i > 0 && rec.Calls[i-1].Kind == KRev && rec.Calls[i-1].Verb == "update" && rec.Calls[i-1].Err != nil {
				continue
			}
		}
		excused := false
		for _, d := range rec.Calls[i+1:] {
			if d.Verb == c.Verb && d.Kind == c.Kind && d.Sub == c.Sub && d.Name == c.Name && d.Err == nil {
				excused = true // internal retry succeeded
				if c.Kind == KPod && c.Verb == "update" && !sameRepair(c.In, d.In) {
					// the write that went through is not the repair that failed: the
					// failure is still unanswered
					excused = false
				}
			}
		}
		switch {
		case apierrors.IsNotFound(c.Err) && (c.Verb == "patch" || c.Verb == "delete") && i < rec.CtlCallIdx:
			excused = true // adoption/release of an object that is gone
		case apierrors.IsInvalid(c.Err) && c.Verb == "patch" && c.Kind == KPod:
			if a, _ := isAdoptPatch(c); !a {
				excused = true // release: the two documented Invalid cases
			}
		case apierrors.IsConflict(c.Err) && c.Kind == KRev && c.Verb == "update" && c.Sub == "":
			// renumbering lost a race, and the uncached re-read shows that the revision
			// already carries the requested number (somebody else wrote it): nothing is
			// left to retry
			rest := rec.Calls[i+1:]
			if len(rest) > 0 && rest[0].Kind == KRev && rest[0].Verb == "get" && rest[0].Name == c.Name && rest[0].Err == nil {
				want, okw := c.In.(*appsv1.ControllerRevision)
				got, okg := rest[0].Out.(*appsv1.ControllerRevision)
				if okw && okg && want != nil && got != nil && got.Revision == want.Revision && string(got.Data.Raw) == string(want.Data.Raw) {
					excused = true
					s.count("probe.renumber_conflict_already_done")
				}
			}
		case apierrors.IsAlreadyExists(c.Err) && c.Kind == KRev && c.Verb == "create":
			rest := rec.Calls[i+1:]
			if len(rest) > 0 && rest[0].Kind == KRev && rest[0].Verb == "get" && rest[0].Err == nil {
				excused = true // same data: adopted as is; different data: retried under another name
			}
		}
		if !excused {
			s.violate("C09", "C09.swallowed", c.Verb+" "+c.Kind.String()+" "+c.Reason(), fmt.Sprintf("reconcile of %s reported success although %s failed and was not retried", rec.Key, c))
		}
	}
}
