package sim

// Core of the controller simulator (DESIGN.md §3): actors parked at API calls,
// the driver primitives (release, advance, crash/restart), incarnations of the
// real controller, the trace and the counters.

import (
	"fmt"
	"hash/fnv"
	"runtime/debug"
	"sort"
	"strings"
	"testing/synctest"
	"time"

	appsv1 "k8s.io/api/apps/v1"
	v1 "k8s.io/api/core/v1"
	"k8s.io/apimachinery/pkg/watch"
	"k8s.io/client-go/kubernetes"
	"k8s.io/client-go/util/workqueue"

	asv1 "github.com/pingcap/advanced-statefulset/client/apis/apps/v1"
	asclientset "github.com/pingcap/advanced-statefulset/client/client/clientset/versioned"
	"github.com/pingcap/advanced-statefulset/pkg/controller/statefulset"
)

// HarnessError is raised (as a panic value) for problems of the simulator
// itself; it is never reported as a violation.
type HarnessError struct{ Msg string }

func (h HarnessError) Error() string { return "harness error: " + h.Msg }

func harnessf(format string, a ...any) { panic(HarnessError{fmt.Sprintf(format, a...)}) }

// PRNG is a splitmix64 generator: stable across Go releases.
type PRNG struct{ s uint64 }

func NewPRNG(seed uint64) *PRNG { return &PRNG{s: seed} }
func (p *PRNG) Uint64() uint64 {
	p.s += 0x9e3779b97f4a7c15
	z := p.s
	z = (z ^ (z >> 30)) * 0xbf58476d1ce4e5b9
	z = (z ^ (z >> 27)) * 0x94d049bb133111eb
	return z ^ (z >> 31)
}
func (p *PRNG) Intn(n int) int {
	if n <= 0 {
		return 0
	}
	return int(p.Uint64() % uint64(n))
}
func (p *PRNG) Float64() float64      { return float64(p.Uint64()>>11) / (1 << 53) }
func (p *PRNG) Chance(x float64) bool { return p.Float64() < x }
func (p *PRNG) Range(lo, hi int) int  { return lo + p.Intn(hi-lo+1) }

func sm64(z uint64) uint64 {
	z += 0x9e3779b97f4a7c15
	z = (z ^ (z >> 30)) * 0xbf58476d1ce4e5b9
	z = (z ^ (z >> 27)) * 0x94d049bb133111eb
	return z ^ (z >> 31)
}

// mix hashes a tuple of integers (order-sensitive, well mixed for small values).
func mix(a ...uint64) uint64 {
	h := uint64(0x243f6a8885a308d3)
	for i, x := range a {
		h = sm64(h ^ sm64(x+uint64(i)*0x632be59bd9b4e019))
	}
	return h
}

func hashStr(s string) uint64 {
	h := fnv.New64a()
	h.Write([]byte(s))
	return h.Sum64()
}

// actor is a goroutine whose API calls are parked: a controller worker or a
// procedure (upgrade helper, hijack-client user).
type actor struct {
	name       string
	inc        int
	resume     chan Decision
	pending    *APICall
	done       bool
	dead       bool
	rec        *Reconcile
	cacheReads uint64
	panicVal   any
	panicStack string
	onDone     func()
	result     error
}

// Reconcile records everything one reconcile observed and did.
type Reconcile struct {
	ID                int
	Inc               int
	Worker            string
	Key               string
	StartSeq          int
	EndSeq            int
	GotKey            bool
	CacheRead         bool
	CacheSet          *asv1.StatefulSet // what the set lister returned in sync (nil: not found)
	CtlCalled         bool
	CtlCallIdx        int
	CachePods         []*v1.Pod // what the pod lister returned to getPodsForStatefulSet
	CachePodsRead     bool
	ListerFaults      []string
	CtlSet            *asv1.StatefulSet // handed to UpdateStatefulSet
	Claimed           []*v1.Pod
	CtlDone           bool
	CtlErr            error
	Calls             []*APICall
	QueueOps          []string
	Panic             any
	PanicStack        string
	Crashed           bool
	Finished          bool
	ConcurrentWorkers int
}

func (r *Reconcile) Failed() (bool, bool) {
	// returns (known, failed) from the queue bookkeeping
	for _, op := range r.QueueOps {
		if strings.HasPrefix(op, "AddRateLimited") {
			return true, true
		}
		if strings.HasPrefix(op, "Forget") {
			return true, false
		}
	}
	return false, false
}

// Incarnation is one life of the controller process.
type Incarnation struct {
	id        int
	ssc       *statefulset.StatefulSetController
	queue     *recQueue
	informers [numKinds]*informerStub
	workers   []*actor
	workerSeq int
}

// Violation is one oracle failure.
type Violation struct {
	Prop   string `json:"prop"`
	Check  string `json:"check"`
	Disc   string `json:"disc"` // discriminator for known-finding signatures
	Step   int    `json:"step"`
	Detail string `json:"detail"`
	// Set is the key of the set a fixed-point violation is about (when there is one).
	Set string `json:"set,omitempty"`
}

func (v Violation) Sig() string { return v.Check + "|" + v.Disc }

// maxPanicDeaths: after that many deaths by panic no further worker is started.
const maxPanicDeaths = 6

// Sim is one simulated run.
type Sim struct {
	// Unpaused: sets whose pause the premise phase lifted (flags profile).
	Unpaused []string
	Seed     uint64
	Cfg   *Config
	Store *Store
	rng   *PRNG

	kube kubernetes.Interface
	as   asclientset.Interface

	inc    *Incarnation
	incSeq int

	current *actor
	driver  *actor
	procs   []*actor

	seq         int
	stepNo      int
	Trace       []string
	Calls       []*APICall
	Recs        []*Reconcile
	recSeq      int
	Counters    map[string]int
	Viol        []Violation
	Notes       []string
	StateSet    map[uint64]struct{}
	PairSet     map[uint64]struct{}
	simStart    time.Time
	WatchSource func() watch.Interface

	// per-handler-invocation recording for the C16 oracle
	evCtx      *eventCtx
	evPending  []*eventCtx
	helperSeen map[string]bool
	Releases   []RelInfo
	revDirty   bool
	// panicDeaths counts process deaths caused by a panic of the code under test
	panicDeaths int
	// revDirtySeq: call sequence number at the last such write
	revDirtySeq int

	oracles *oracleState
	quiet   bool // quiesce phase: no faults, deterministic
	NoTrace bool
}

func NewSim(seed uint64, cfg *Config) *Sim {
	s := &Sim{Seed: seed, Cfg: cfg, Store: NewStore(), rng: NewPRNG(mix(seed, 0xabcdef)),
		Counters: map[string]int{}, StateSet: map[uint64]struct{}{}, PairSet: map[uint64]struct{}{}}
	s.driver = &actor{name: "driver"}
	s.current = s.driver
	s.kube = newKubeClient(s)
	s.as = newASClient(s)
	s.Store.Graceful = cfg.Graceful
	s.Store.OnMutate = func(k Kind) {
		// ControllerRevisions have no event handler in this controller: a revision
		// written by anybody but a worker is invisible to it until the next reconcile
		if k == KRev && (s.current == nil || s.current.rec == nil) {
			s.revDirty = true
			s.revDirtySeq = s.seq
		}
	}
	s.oracles = newOracleState()
	s.simStart = time.Now()
	return s
}

func (s *Sim) count(name string)         { s.Counters[name]++ }
func (s *Sim) countN(name string, n int) { s.Counters[name] += n }

func (s *Sim) tracef(format string, a ...any) {
	if s.NoTrace {
		return
	}
	s.Trace = append(s.Trace, fmt.Sprintf(format, a...))
}

// TraceHash is the canonical hash of the run.
func (s *Sim) TraceHash() uint64 {
	h := fnv.New64a()
	for _, l := range s.Trace {
		h.Write([]byte(l))
		h.Write([]byte{'\n'})
	}
	return h.Sum64()
}

// violateSet is violate for a violation that concerns one set.
func (s *Sim) violateSet(setKey, prop, check, disc, detail string) {
	n := len(s.Viol)
	s.violate(prop, check, disc, detail)
	if len(s.Viol) > n {
		s.Viol[n].Set = setKey
	}
}

func (s *Sim) violate(prop, check, disc, detail string) {
	for _, v := range s.Viol {
		if v.Check == check && v.Disc == disc {
			return // one report per signature per run
		}
	}
	s.Viol = append(s.Viol, Violation{Prop: prop, Check: check, Disc: disc, Step: s.stepNo, Detail: detail})
	s.tracef("VIOLATION %s %s %s", check, disc, detail)
}

func (s *Sim) rotation(n int) int {
	if s.Cfg.NoRotate || n <= 1 {
		return 0
	}
	a := s.current
	a.cacheReads++
	return int(mix(s.Seed, hashStr(a.name), uint64(a.inc), a.cacheReads) % uint64(n))
}

// ---- parking ----------------------------------------------------------------

func (s *Sim) yield(c *APICall) Decision {
	a := s.current
	if a == nil || a == s.driver {
		harnessf("API call %s %s %s from the driver goroutine", c.Verb, c.Kind, c.Name)
	}
	c.Actor, c.Inc = a.name, a.inc
	if a.rec != nil {
		c.RecID = a.rec.ID
	}
	if a.dead {
		return Decision{Kind: DecDead}
	}
	a.pending = c
	d := <-a.resume
	return d
}

func (s *Sim) logCall(c *APICall) {
	s.seq++
	c.Seq = s.seq
	s.Calls = append(s.Calls, c)
	if a := s.current; a != nil && a.rec != nil {
		a.rec.Calls = append(a.rec.Calls, c)
	}
	s.tracef("  api %s", c.String())
	if c.Fault != "" {
		s.count("fault." + c.Fault)
	}
}

const maxIdleAdvance = 5000 // ms of virtual time a released actor may sleep before parking again

// waitActor returns when a is parked again or finished, advancing virtual time
// while it sleeps in a retry backoff.
func (s *Sim) waitActor(a *actor) {
	synctest.Wait()
	for i := 0; !a.done && a.pending == nil; i++ {
		if i > maxIdleAdvance {
			harnessf("actor %s neither parked nor finished after %d ms of virtual time", a.name, maxIdleAdvance)
		}
		time.Sleep(time.Millisecond)
		synctest.Wait()
		s.count("clock.backoff_ms")
	}
	s.current = s.driver
	if a.done && a.onDone != nil {
		f := a.onDone
		a.onDone = nil
		f()
	}
}

// release lets a parked actor execute its pending call with decision d and
// run until it parks again or finishes.
func (s *Sim) release(a *actor, d Decision) {
	if a.pending == nil || a.done {
		harnessf("release of actor %s that is not parked", a.name)
	}
	s.current = a
	a.pending = nil
	a.resume <- d
	s.waitActor(a)
}

// spawn starts fn as a parked actor.
func (s *Sim) spawn(a *actor, fn func()) {
	a.resume = make(chan Decision)
	s.current = a
	go func() {
		defer func() {
			if r := recover(); r != nil {
				if he, ok := r.(HarnessError); ok {
					a.panicVal = he
				} else {
					a.panicVal = r
				}
				a.panicStack = string(debug.Stack())
			}
			a.done = true
		}()
		fn()
	}()
	s.waitActor(a)
}

// Advance moves virtual time forward by d (delayed re-adds fire).
func (s *Sim) Advance(d time.Duration) {
	synctest.Wait()
	time.Sleep(d)
	synctest.Wait()
	s.countN("clock.advance_ms", int(d/time.Millisecond))
}

// ---- incarnations -------------------------------------------------------------

func (s *Sim) newIncarnation() {
	s.incSeq++
	inc := &Incarnation{id: s.incSeq}
	for _, k := range []Kind{KPod, KPVC, KRev, KSet} {
		inc.informers[k] = newInformerStub(s, k)
	}
	s.inc = inc
	s.current = s.driver
	inc.ssc = statefulset.NewStatefulSetController(
		podInformer{inc.informers[KPod]},
		setInformer{inc.informers[KSet]},
		pvcInformer{inc.informers[KPVC]},
		revInformer{inc.informers[KRev]},
		s.kube, s.as)
	inc.queue = &recQueue{RateLimitingInterface: inc.ssc.VerifQueue(), sim: s, inc: inc, delayed: map[string]int{}}
	inc.ssc.VerifSetQueue(inc.queue)
	inc.ssc.VerifSetControl(&recControl{inner: inc.ssc.VerifControl(), sim: s})
	// initial list of every cache (order across kinds chosen by the run's seed)
	order := []Kind{KSet, KPod, KPVC}
	r := int(mix(s.Seed, uint64(inc.id), 77) % 6)
	perms := [][]int{{0, 1, 2}, {0, 2, 1}, {1, 0, 2}, {1, 2, 0}, {2, 0, 1}, {2, 1, 0}}
	for _, i := range perms[r] {
		s.initialList(order[i])
	}
	inc.informers[KRev].synced = true
	s.tracef("incarnation %d started, queue=%d", inc.id, inc.queue.Len())
	synctest.Wait()
}

// StartWorker lets a worker take the next key, if any. It returns the actor or nil.
func (s *Sim) StartWorker() *actor {
	inc := s.inc
	if inc == nil || inc.queue.Len() == 0 {
		return nil
	}
	if s.panicDeaths >= maxPanicDeaths {
		// the controller is in a crash loop (every restart meets the same panic):
		// the panic is reported already, further incarnations add nothing but
		// thousands of leaked goroutines to the bubble
		return nil
	}
	live := 0
	for _, w := range inc.workers {
		if !w.done {
			live++
		}
	}
	if live >= s.Cfg.Workers {
		return nil
	}
	inc.workerSeq++
	a := &actor{name: fmt.Sprintf("w%d.%d", inc.id, inc.workerSeq), inc: inc.id}
	s.recSeq++
	rec := &Reconcile{ID: s.recSeq, Inc: inc.id, Worker: a.name, StartSeq: s.seq, ConcurrentWorkers: live}
	a.rec = rec
	s.Recs = append(s.Recs, rec)
	inc.workers = append(inc.workers, a)
	if live > 0 {
		s.count("probe.concurrent_workers")
	}
	a.onDone = func() { s.finishReconcile(a) }
	s.tracef("worker %s starts", a.name)
	s.spawn(a, func() { inc.ssc.VerifProcessNextWorkItem() })
	return a
}

func (s *Sim) finishReconcile(a *actor) {
	rec := a.rec
	rec.EndSeq = s.seq
	rec.Finished = true
	if a.panicVal != nil {
		if he, ok := a.panicVal.(HarnessError); ok {
			panic(he)
		}
		rec.Panic = a.panicVal
		rec.PanicStack = a.panicStack
	}
	if reps, stacks := takeCrashReports(); len(reps) > 0 && rec.Panic == nil {
		// a panic inside a wait/retry condition: HandleCrash recovered it because the
		// harness switches ReallyCrash off; as shipped it terminates the process
		rec.Panic = reps[0] + " (recovered by HandleCrash in the harness; terminates the process as shipped)"
		rec.PanicStack = stacks[0]
	}
	rec.Crashed = a.dead
	known, failed := rec.Failed()
	s.tracef("worker %s done key=%s failed=%v/%v calls=%d", a.name, rec.Key, known, failed, len(rec.Calls))
	s.count("reconciles")
	s.checkReconcile(rec)
	if rec.Panic != nil && !a.dead {
		// a panic in a worker kills the process (HandleCrash re-panics): restart
		s.tracef("process died from panic: %v", rec.Panic)
		s.panicDeaths++
		s.count("process.death_by_panic")
		s.CrashRestart(nil)
	}
}

// ParkedWorkers returns the live workers that are parked at an API call.
func (s *Sim) ParkedWorkers() []*actor {
	var out []*actor
	if s.inc == nil {
		return nil
	}
	for _, w := range s.inc.workers {
		if !w.done && w.pending != nil {
			out = append(out, w)
		}
	}
	return out
}

// CrashRestart kills the controller process. applied decides, per parked
// worker, whether its in-flight call reaches the store before the death.
func (s *Sim) CrashRestart(applied func(a *actor) bool) {
	old := s.inc
	if old != nil {
		s.count("fault.crash")
		for _, w := range old.workers {
			if w.done {
				continue
			}
			w.dead = true
			if w.rec != nil {
				w.rec.Crashed = true
			}
			if w.pending != nil {
				// a claim create of a multi-claim group is parked in map-iteration order of
				// the code under test: dying "after apply" there would not replay
				// (DESIGN.md §3.7), so the death falls before the group
				if applied != nil && applied(w) && w.pending.IsWrite() && !(w.pending.Kind == KPVC && w.pending.Verb == "create") {
					s.count("fault.crash.after")
					s.release(w, Decision{Kind: DecFailAfter, Err: errDead, Label: "crash-after"})
				} else {
					s.count("fault.crash.before")
					s.release(w, Decision{Kind: DecDead, Label: "crash-before"})
				}
			}
			for i := 0; !w.done; i++ {
				if w.pending != nil {
					s.release(w, Decision{Kind: DecDead})
				} else {
					s.waitActor(w)
				}
				if i > 1000 {
					harnessf("dead worker %s does not finish", w.name)
				}
			}
		}
		old.queue.ShutDown()
	}
	s.inc = nil
	s.tracef("crash/restart")
	s.newIncarnation()
}

// ---- recording wrappers ---------------------------------------------------------

// recQueue wraps the controller's real rate-limiting queue and records who did what.
type recQueue struct {
	workqueue.RateLimitingInterface
	sim     *Sim
	inc     *Incarnation
	delayed map[string]int // keys handed to AddRateLimited/AddAfter and not yet seen by Get
	Ops     []string
}

func (q *recQueue) note(op string, item interface{}) {
	s := q.sim
	line := fmt.Sprintf("%s(%v)", op, item)
	a := s.current
	if a != nil && a.rec != nil {
		a.rec.QueueOps = append(a.rec.QueueOps, line)
	}
	if s.evCtx != nil && op == "Add" {
		s.evCtx.adds = append(s.evCtx.adds, fmt.Sprint(item))
	}
	s.tracef("  queue %s by %s", line, a.name)
}

func (q *recQueue) Add(item interface{}) {
	q.note("Add", item)
	q.RateLimitingInterface.Add(item)
}
func (q *recQueue) AddRateLimited(item interface{}) {
	q.note("AddRateLimited", item)
	q.delayed[fmt.Sprint(item)]++
	q.RateLimitingInterface.AddRateLimited(item)
}
func (q *recQueue) AddAfter(item interface{}, d time.Duration) {
	q.note("AddAfter", item)
	q.delayed[fmt.Sprint(item)]++
	q.RateLimitingInterface.AddAfter(item, d)
}
func (q *recQueue) Forget(item interface{}) {
	q.note("Forget", item)
	q.RateLimitingInterface.Forget(item)
}
func (q *recQueue) Done(item interface{}) {
	q.note("Done", item)
	q.RateLimitingInterface.Done(item)
}
func (q *recQueue) Get() (interface{}, bool) {
	item, quit := q.RateLimitingInterface.Get()
	a := q.sim.current
	if a != nil && a.rec != nil && !quit {
		a.rec.Key = fmt.Sprint(item)
		a.rec.GotKey = true
	}
	delete(q.delayed, fmt.Sprint(item))
	q.sim.tracef("  queue Get -> %v by %s", item, a.name)
	return item, quit
}

// recControl wraps the real StatefulSetControlInterface and records the exact
// snapshot handed to UpdateStatefulSet.
type recControl struct {
	inner statefulset.StatefulSetControlInterface
	sim   *Sim
}

func (c *recControl) UpdateStatefulSet(set *asv1.StatefulSet, pods []*v1.Pod) error {
	a := c.sim.current
	if a != nil && a.rec != nil {
		a.rec.CtlCalled = true
		a.rec.CtlCallIdx = len(a.rec.Calls)
		a.rec.CtlSet = set.DeepCopy()
		for _, p := range pods {
			a.rec.Claimed = append(a.rec.Claimed, p.DeepCopy())
		}
	}
	err := c.inner.UpdateStatefulSet(set, pods)
	if a != nil && a.rec != nil {
		a.rec.CtlDone = true
		a.rec.CtlErr = err
	}
	return err
}
func (c *recControl) ListRevisions(set *asv1.StatefulSet) ([]*appsv1.ControllerRevision, error) {
	return c.inner.ListRevisions(set)
}
func (c *recControl) AdoptOrphanRevisions(set *asv1.StatefulSet, revisions []*appsv1.ControllerRevision) error {
	return c.inner.AdoptOrphanRevisions(set, revisions)
}

func (s *Sim) observeCacheGet(k Kind, ky string, item interface{}, ok bool) {
	a := s.current
	if k != KSet || a == nil || a.rec == nil || a.rec.CacheRead {
		return
	}
	a.rec.CacheRead = true
	if ok {
		a.rec.CacheSet = item.(*asv1.StatefulSet).DeepCopy()
	} else {
		s.count("probe.reconcile_set_not_cached")
	}
}

// sortedKeys is a small helper for deterministic map iteration.
func sortedKeys[V any](m map[string]V) []string {
	out := make([]string, 0, len(m))
	for k := range m {
		out = append(out, k)
	}
	sort.Strings(out)
	return out
}

func (s *Sim) observeCacheList(k Kind, items []interface{}) {
	a := s.current
	if k != KPod || a == nil || a.rec == nil || a.rec.CachePodsRead {
		return
	}
	a.rec.CachePodsRead = true
	for _, it := range items {
		a.rec.CachePods = append(a.rec.CachePods, it.(*v1.Pod).DeepCopy())
	}
}
