package sim

// Migration scenario (DESIGN.md §5 C18): a built-in StatefulSet with revisions
// and pods produced by a stub of the built-in controller, upgraded by the real
// helper.Upgrade (parked, interleaved with the real CRD controller, the GC and
// the built-in controller stub), then judged: revision data byte-identical,
// marker revisions adopted, no new revision, no pod deleted.

import (
	"context"
	"encoding/json"
	"fmt"
	"hash/fnv"
	"strconv"
	"strings"

	appsv1 "k8s.io/api/apps/v1"
	v1 "k8s.io/api/core/v1"
	metav1 "k8s.io/apimachinery/pkg/apis/meta/v1"
	"k8s.io/apimachinery/pkg/labels"
	"k8s.io/apimachinery/pkg/runtime"
	"k8s.io/apimachinery/pkg/util/rand"
	kubescheme "k8s.io/client-go/kubernetes/scheme"

	asv1 "github.com/pingcap/advanced-statefulset/client/apis/apps/v1"
	"github.com/pingcap/advanced-statefulset/client/apis/apps/v1/helper"
	"github.com/pingcap/advanced-statefulset/pkg/controller/statefulset"
)

var builtinPatchCodec = kubescheme.Codecs.LegacyCodec(appsv1.SchemeGroupVersion)

// BuiltinPatch is the reference encoder: what the upstream StatefulSet controller
// records as revision data (its getPatch, rewritten here on client-go's apps/v1
// scheme; nothing from this repository is used).
func BuiltinPatch(set *appsv1.StatefulSet) []byte {
	data, err := runtime.Encode(builtinPatchCodec, set)
	if err != nil {
		panic(err)
	}
	var raw map[string]interface{}
	if err := json.Unmarshal(data, &raw); err != nil {
		panic(err)
	}
	spec := raw["spec"].(map[string]interface{})
	template := spec["template"].(map[string]interface{})
	template["$patch"] = "replace"
	patch, err := json.Marshal(map[string]interface{}{"spec": map[string]interface{}{"template": template}})
	if err != nil {
		panic(err)
	}
	return patch
}

// builtinRevisionName follows upstream naming: <set>-<safe-encoded fnv32(data + collisionCount)>.
func builtinRevisionName(setName string, data []byte, collision int32) string {
	hf := fnv.New32()
	hf.Write(data)
	hf.Write([]byte(strconv.FormatInt(int64(collision), 10)))
	return fmt.Sprintf("%s-%s", setName, rand.SafeEncodeString(fmt.Sprint(hf.Sum32())))
}

// RichTemplate draws a larger (still valid) pod template for the byte-identity claim.
func RichTemplate(lbls map[string]string, r *PRNG) v1.PodTemplateSpec {
	t := Template(lbls, r.Intn(12))
	c := &t.Spec.Containers[0]
	if r.Chance(0.5) {
		c.Ports = []v1.ContainerPort{{Name: "http", ContainerPort: int32(r.Range(1, 65535)), Protocol: v1.ProtocolTCP}}
	}
	if r.Chance(0.4) {
		c.Command = []string{"/bin/sh", "-c", fmt.Sprintf("sleep %d", r.Intn(100))}
	}
	if r.Chance(0.4) {
		c.VolumeMounts = []v1.VolumeMount{{Name: "vol0", MountPath: "/data"}}
	}
	if r.Chance(0.3) {
		c.ImagePullPolicy = []v1.PullPolicy{v1.PullAlways, v1.PullIfNotPresent, v1.PullNever}[r.Intn(3)]
	}
	if r.Chance(0.3) {
		b := r.Chance(0.5)
		c.SecurityContext = &v1.SecurityContext{Privileged: &b}
	}
	if r.Chance(0.3) {
		t.Spec.RestartPolicy = v1.RestartPolicyAlways
	}
	if r.Chance(0.3) {
		t.Spec.NodeSelector = map[string]string{"disk": "ssd", "zone": fmt.Sprint(r.Intn(3))}
	}
	if r.Chance(0.3) {
		t.Spec.Tolerations = []v1.Toleration{{Key: "k", Operator: v1.TolerationOpExists, Effect: v1.TaintEffectNoSchedule}}
	}
	if r.Chance(0.3) {
		t.Spec.Containers = append(t.Spec.Containers, v1.Container{Name: "side", Image: "side:1", Env: []v1.EnvVar{{Name: "X", Value: ""}}})
	}
	if r.Chance(0.2) {
		t.Spec.InitContainers = []v1.Container{{Name: "init", Image: "init:1"}}
	}
	if r.Chance(0.3) {
		s := int64(r.Intn(300))
		if r.Chance(0.3) {
			// admitted by pod validation (no upper bound) and beyond float64's exact
			// integers: the upstream encoder rounds it, byte identity must survive that
			s = []int64{1<<53 + 1, 1<<62 + 12345, 1<<53 - 1}[r.Intn(3)]
		}
		t.Spec.ActiveDeadlineSeconds = nil
		t.Spec.TerminationGracePeriodSeconds = &s
	}
	if r.Chance(0.15) {
		ts := int64(1<<53 + 3)
		t.Spec.Tolerations = append(t.Spec.Tolerations, v1.Toleration{Key: "big", Operator: v1.TolerationOpExists, Effect: v1.TaintEffectNoExecute, TolerationSeconds: &ts})
	}
	if r.Chance(0.2) {
		t.Annotations = map[string]string{"prometheus.io/scrape": "true", "n": fmt.Sprint(r.Intn(9))}
	}
	if r.Chance(0.2) {
		t.Spec.Affinity = &v1.Affinity{PodAntiAffinity: &v1.PodAntiAffinity{RequiredDuringSchedulingIgnoredDuringExecution: []v1.PodAffinityTerm{{TopologyKey: "kubernetes.io/hostname", LabelSelector: &metav1.LabelSelector{MatchLabels: lbls}}}}}
	}
	if r.Chance(0.2) {
		t.Spec.Volumes = []v1.Volume{{Name: "cfg", VolumeSource: v1.VolumeSource{ConfigMap: &v1.ConfigMapVolumeSource{LocalObjectReference: v1.LocalObjectReference{Name: "cm"}}}}}
	}
	return t
}

// builtinSetFor builds the built-in StatefulSet for cfg (as a user wrote it and
// the API server defaulted it).
func builtinSetFor(c *SetCfg, tmpl v1.PodTemplateSpec) *appsv1.StatefulSet {
	b := &appsv1.StatefulSet{}
	b.TypeMeta = metav1.TypeMeta{APIVersion: "apps/v1", Kind: "StatefulSet"}
	b.Name = c.Name
	b.Namespace = NS
	b.Spec.Replicas = int32p(c.Replicas)
	b.Spec.Selector = &metav1.LabelSelector{MatchLabels: map[string]string{}}
	for k, x := range c.Labels {
		b.Spec.Selector.MatchLabels[k] = x
	}
	b.Spec.Template = tmpl
	b.Spec.ServiceName = "svc-" + c.Name
	b.Spec.PodManagementPolicy = appsv1.PodManagementPolicyType(c.Policy)
	if c.Strategy == "OnDelete" {
		b.Spec.UpdateStrategy.Type = appsv1.OnDeleteStatefulSetStrategyType
	} else {
		p := int32(0)
		if c.Partition != nil {
			p = *c.Partition
		}
		b.Spec.UpdateStrategy = appsv1.StatefulSetUpdateStrategy{Type: appsv1.RollingUpdateStatefulSetStrategyType, RollingUpdate: &appsv1.RollingUpdateStatefulSetStrategy{Partition: &p}}
	}
	b.Spec.RevisionHistoryLimit = int32p(10)
	for _, ct := range claimTemplates(c.Claims, c.ClaimLabels) {
		b.Spec.VolumeClaimTemplates = append(b.Spec.VolumeClaimTemplates, ct)
	}
	return b
}

// mkbset: A=set, B=number of revisions (history length 1..n), C=rollout point
// (how many of the top ordinals are already at the newest revision; >= replicas
// means the rollout is complete), D=seed for rich templates.
func (s *Sim) stepMkBuiltin(st Step) bool {
	c := s.setCfg(st.A)
	if c == nil {
		return false
	}
	if _, ok := s.Store.tables[KBSet][key(NS, c.Name)]; ok {
		return false
	}
	if _, ok := s.Store.tables[KSet][key(NS, c.Name)]; ok {
		return false
	}
	nrev := 1 + abs(st.B)%4
	// B bit 2: the history carries one revision number several times (what an
	// interrupted earlier migration attempt leaves behind: the built-in controller
	// no longer lists a revision whose labels were stripped and numbers the next
	// one as if it were not there); the record of the set's template is the oldest
	tie := (abs(st.B)>>2)&1 == 1 && nrev > 1
	tr := NewPRNG(mix(s.Seed, uint64(abs(st.D)), 0x18))
	var tmpls []v1.PodTemplateSpec
	for i := 0; i < nrev; i++ {
		tmpls = append(tmpls, RichTemplate(c.Labels, tr))
	}
	b := builtinSetFor(c, tmpls[nrev-1])
	created, err := stCreate(s.Store, KBSet, NS, b)
	if err != nil {
		harnessf("mkbset: %v", err)
	}
	owner := ownerRefFor("apps/v1", "StatefulSet", c.Name, created.UID)
	var names []string
	revData := map[string]string{}
	order := make([]int, nrev)
	for i := range order {
		order[i] = i
		if tie {
			order[i] = nrev - 1 - i
		}
	}
	names = make([]string, nrev)
	for _, i := range order {
		t := tmpls[i]
		bb := created.DeepCopy()
		bb.Spec.Template = t
		data := BuiltinPatch(bb)
		r := &appsv1.ControllerRevision{}
		r.Name = builtinRevisionName(c.Name, data, 0)
		r.Labels = map[string]string{}
		for k, x := range t.Labels {
			r.Labels[k] = x
		}
		r.Labels["controller.kubernetes.io/hash"] = strings.TrimPrefix(r.Name, c.Name+"-")
		r.Data = runtime.RawExtension{Raw: data}
		revData[r.Name] = string(data)
		r.Revision = int64(i + 1)
		if tie {
			r.Revision = 1
		}
		r.OwnerReferences = []metav1.OwnerReference{owner}
		names[i] = r.Name
		// two drawn templates may coincide: the built-in controller would re-use the revision
		stCreate(s.Store, KRev, NS, r)
	}
	// pods: the top `C` ordinals at the newest revision, the rest at the previous one
	atNew := abs(st.C) % (int(c.Replicas) + 2)
	cur, upd := names[len(names)-1], names[len(names)-1]
	if len(names) > 1 {
		cur = names[len(names)-2]
	}
	conv, _ := helper.FromBuiltinStatefulSet(created)
	var nCur, nUpd int32
	for ord := int32(0); ord < c.Replicas; ord++ {
		useNew := int(c.Replicas-ord) <= atNew || len(names) == 1
		t, rev := tmpls[len(tmpls)-1], upd
		if !useNew {
			t, rev = tmpls[len(tmpls)-2], cur
		}
		p := ModelPod(conv, &t, ord, rev)
		p.OwnerReferences = []metav1.OwnerReference{owner}
		if _, err := stCreate(s.Store, KPod, NS, p); err != nil {
			continue
		}
		Mutate(s.Store, KPod, NS, p.Name, func(o *v1.Pod) bool { setPodPhase(o, 3); return true })
		if rev == upd {
			nUpd++
		}
		if rev == cur {
			nCur++
		}
		for _, ct := range created.Spec.VolumeClaimTemplates {
			pvc := ct.DeepCopy()
			pvc.Name = fmt.Sprintf("%s-%s-%d", ct.Name, c.Name, ord)
			pvc.Namespace = NS
			stCreate(s.Store, KPVC, NS, pvc)
		}
	}
	if atNew >= int(c.Replicas) {
		cur = upd
	}
	Mutate(s.Store, KBSet, NS, c.Name, func(o *appsv1.StatefulSet) bool {
		o.Status = appsv1.StatefulSetStatus{ObservedGeneration: o.Generation, Replicas: c.Replicas, ReadyReplicas: c.Replicas, CurrentReplicas: nCur, UpdatedReplicas: nUpd,
			CurrentRevision: cur, UpdateRevision: upd, CollisionCount: int32p(int32(abs(st.D) % 3 / 2)), AvailableReplicas: c.Replicas}
		return true
	})
	s.oracles.migrated[c.Name] = &migration{revNames: names, tmpl: templateContent(&tmpls[len(tmpls)-1]), updName: upd, revData: revData}
	s.count("builtin.mkbset")
	return true
}

type migration struct {
	revNames   []string
	tmpl       string
	updName    string
	upgraded   bool // Upgrade returned nil at least once
	upgradeSeq int
	dataOK     bool
	revData    map[string]string
}

// upgrade: A=set. Spawns the real helper.Upgrade as a parked procedure.
func (s *Sim) stepUpgrade(st Step) bool {
	c := s.setCfg(st.A)
	if c == nil {
		return false
	}
	b, ok := Peek[*appsv1.StatefulSet](s.Store, KBSet, NS, c.Name)
	if !ok {
		return false
	}
	for _, p := range s.procs {
		if !p.done {
			return false
		}
	}
	m := s.oracles.migrated[c.Name]
	if m != nil && m.upgraded {
		return false // C18 is about one migration; re-running the helper is C17's subject
	}
	if m != nil && !m.dataOK {
		// the precondition the system-level claim rests on: the CRD controller's
		// computed data for the converted set equals the built-in controller's bytes
		conv, err := helper.FromBuiltinStatefulSet(b)
		if err != nil {
			s.violate("C18", "C18.data-differs", "convert", fmt.Sprintf("conversion failed: %v", err))
		} else if rev, ok := Peek[*appsv1.ControllerRevision](s.Store, KRev, NS, m.updName); ok {
			same, err := statefulset.Match(conv, rev)
			if err != nil || !same {
				s.violate("C18", "C18.data-differs", "bytes", fmt.Sprintf("revision data computed for the converted set differs from the built-in controller's record %s (err=%v)", m.updName, err))
			}
			s.count("probe.migration_bytes_compared")
		}
		m.dataOK = true
	}
	in := b.DeepCopy()
	a := &actor{name: fmt.Sprintf("upgrade%d", len(s.procs)+1)}
	s.procs = append(s.procs, a)
	name := c.Name
	a.onDone = func() {
		if a.panicVal != nil {
			return
		}
		if a.result == nil {
			if m := s.oracles.migrated[name]; m != nil && !m.upgraded {
				m.upgraded = true
				m.upgradeSeq = s.seq
				// the migrated set must carry the built-in set's pod template unchanged:
				// any difference makes the controller record a new revision and roll the pods
				if as, ok := Peek[*asv1.StatefulSet](s.Store, KSet, NS, name); ok {
					if got := templateContent(&as.Spec.Template); !sameTemplate(got, m.tmpl) {
						s.violate("C18", "C18.data-differs", "template-changed-by-upgrade", fmt.Sprintf("the Advanced StatefulSet %s created by the upgrade does not carry the built-in set's pod template", name))
					}
				}
			}
			s.count("probe.upgrade_succeeded")
		} else {
			s.count("probe.upgrade_failed")
		}
	}
	s.count("user.upgrade")
	s.spawn(a, func() {
		_, a.result = helper.Upgrade(context.TODO(), s.kube, s.as, in)
	})
	return true
}

// bctl: the built-in controller stub re-adopts orphan revisions and pods that
// match its selector while its set object exists (kubernetes issue 84982: the
// reason the helper strips the selector labels).
func (s *Sim) stepBuiltinController(st Step) bool {
	did := false
	for _, ky := range s.Store.Keys(KBSet) {
		b := s.Store.tables[KBSet][ky].(*appsv1.StatefulSet)
		if b.DeletionTimestamp != nil && abs(st.A)%2 == 0 {
			continue // sees its own deletion unless its cache is stale (A odd)
		}
		sel, err := metav1.LabelSelectorAsSelector(b.Spec.Selector)
		if err != nil {
			continue
		}
		owner := ownerRefFor("apps/v1", "StatefulSet", b.Name, b.UID)
		for _, rk := range s.Store.Keys(KRev) {
			r := s.Store.tables[KRev][rk].(*appsv1.ControllerRevision)
			if controllerOf(r) == nil && sel.Matches(labels.Set(r.Labels)) {
				Mutate(s.Store, KRev, NS, r.Name, func(o *appsv1.ControllerRevision) bool {
					o.OwnerReferences = append(o.OwnerReferences, owner)
					return true
				})
				s.count("builtin.readopt_revision")
				did = true
			}
		}
	}
	return did
}

// checkMigration is evaluated per reconcile of a migrated set and at the end.
func (s *Sim) checkMigrationReconcile(v *recView) {
	m := s.oracles.migrated[v.set.Name]
	if m == nil || !m.upgraded || v.rec.StartSeq < m.upgradeSeq {
		return
	}
	if v.tmpl != m.tmpl {
		return // the template was edited after the migration
	}
	// the claim presupposes that the built-in controller's record still exists
	// (a racing actor may have removed it) and that this reconcile could see it
	pre, ok := Peek[*appsv1.ControllerRevision](s.Store, KRev, NS, m.updName)
	if !ok {
		return
	}
	if t, ok := RevTemplate(pre); !ok || !sameTemplate(t, m.tmpl) {
		return // another object took the name
	}
	if ref := controllerOf(pre); ref != nil && ref.UID != v.set.UID {
		return // still owned by the built-in set (GC has not orphaned it yet): not adoptable
	}
	if _, listed := v.listedN[m.updName]; !listed {
		return // appeared after this reconcile's listing
	}
	for _, c := range v.rec.Calls[v.rec.CtlCallIdx:] {
		if c.Kind == KRev && c.Verb == "create" && c.Err == nil {
			if c.Name == m.updName {
				// the record had been removed by then (a create under its very name went
				// through): recording the template again is the only thing left to do
				continue
			}
			s.violate("C18", "C18.new-revision", "create", fmt.Sprintf("after the migration of %s with an unchanged template the controller created revision %s", v.set.Name, c.Name))
		}
		if c.Kind == KPod && c.Verb == "delete" {
			if p := v.byName[c.Name]; p != nil && podRevision(p) == m.updName && !podTerminal(p) && v.D[mustOrd(p.Name)] {
				s.violate("C18", "C18.pod-deleted", "delete", fmt.Sprintf("after the migration of %s the controller deleted pod %s which is at the pre-existing update revision", v.set.Name, c.Name))
			}
		}
	}
	if v.rec.CtlDone && v.rec.CtlErr == nil {
		st, _ := v.finalStatus()
		if st.UpdateRevision != m.updName {
			s.violate("C18", "C18.new-revision", "update-revision", fmt.Sprintf("after the migration of %s status.updateRevision is %s, the pre-existing revision is %s", v.set.Name, st.UpdateRevision, m.updName))
		}
		s.count("probe.post_migration_reconcile")
	}
}

func mustOrd(name string) int32 {
	_, o, _ := podOrdinal(name)
	return o
}

func (s *Sim) checkMigrationEnd() {
	for _, name := range sortedKeys(s.oracles.migrated) {
		m := s.oracles.migrated[name]
		if !m.upgraded {
			continue
		}
		set, ok := Peek[*asv1.StatefulSet](s.Store, KSet, NS, name)
		if !ok || set.DeletionTimestamp != nil {
			continue
		}
		for _, rn := range m.revNames {
			r, ok := Peek[*appsv1.ControllerRevision](s.Store, KRev, NS, rn)
			if !ok {
				continue // trimmed by history limit or removed by someone
			}
			if string(r.Data.Raw) != m.revData[rn] {
				continue // another object took the name after the original was removed
			}
			ref := controllerOf(r)
			if ref == nil || ref.UID != set.UID {
				s.violate("C18", "C18.not-adopted", "owner", fmt.Sprintf("at the fixed point revision %s of the migrated set %s is not controlled by it", rn, name))
				continue
			}
			for k, x := range set.Spec.Template.Labels {
				if r.Labels[k] != x {
					s.violate("C18", "C18.not-adopted", "labels", fmt.Sprintf("revision %s of the migrated set was not label-synced (%s)", rn, k))
				}
			}
		}
		s.count("probe.migration_checked_at_fixed_point")
	}
}
