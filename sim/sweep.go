package sim

// Fault sweep for C09 (DESIGN.md §5 C09 part ii, level fault_enumeration): for
// sampled (seed, reconcile) pairs, a fault of every kind is placed at every API
// call position of that reconcile (before / after apply, crash before / after,
// racing mutations), singly and in sampled pairs; each faulted run must satisfy
// the safety oracles, converge, and - for pure failures - end in a final state
// equivalent to the fault-free run's.

import (
	"fmt"
	"sort"
	"strings"
	"testing"

	appsv1 "k8s.io/api/apps/v1"
	v1 "k8s.io/api/core/v1"

	asv1 "github.com/pingcap/advanced-statefulset/client/apis/apps/v1"
)

func init() {
	profiles["sweepbase"] = &Profile{Name: "sweepbase", Tweak: func(r *PRNG, c *Config) {
		c.Dialect = "truthful" // faults are placed explicitly by the sweep; the base schedule carries none
		c.FaultPct = 0
		c.Workers = 1
		c.Weights["crash"] = 0
		c.Weights["relist"] = 0
		c.Weights["resync"] = 0
		c.Weights["mkpod"] = 0
		c.Weights["podlabel"] = 0
		c.Weights["podorphan"] = 0
		c.Weights["resubmit"] = 0
		c.Weights["delset"] = 0
		c.Weights["mkset"] = 0
		c.Chaos = r.Range(15, 70)
		for i := range c.Sets {
			if c.Sets[i].Claims > 1 {
				c.Sets[i].Claims = 1
			}
		}
	}}
	profiles["sweep"] = profiles["sweepbase"]

	// sweeproll: the same enumeration around the reconcile that replaces a finished
	// pod in the middle of a partitioned rolling update: every pod at or above the
	// partition is updated and Ready, a pod below it has just failed. A partial
	// reconcile there (delete applied, create failed; crash in between; ...) must
	// neither move the current revision nor bring the pod back at the update revision.
	profiles["sweeprollbase"] = &Profile{Name: "sweeprollbase", Tweak: func(r *PRNG, c *Config) {
		profiles["sweepbase"].Tweak(r, c)
		c.Sets = c.Sets[:1]
		sc := &c.Sets[0]
		sc.Replicas = int32(r.Range(2, 4))
		sc.Slots = nil
		if r.Chance(0.3) {
			sl := []string{"[0]", "[1]"}[r.Intn(2)]
			sc.Slots = &sl
		}
		part := int32(r.Range(1, int(sc.Replicas)))
		sc.Strategy, sc.HasRU, sc.Partition = "RollingUpdate", true, &part
		sc.Paused = false
		sc.Claims = 0
		c.Graceful = false
		c.Weights["template"] = 0
		c.Weights["partition"] = 0
		c.Weights["strategy"] = 0
		c.Weights["pause"] = 0
		c.Weights["worker"] = 60
		c.Chaos = r.Range(12, 40)
	}, Prefix: func(r *PRNG, c *Config) []Step {
		sc := c.Sets[0]
		slots := map[int32]bool{}
		if sc.Slots != nil {
			slots = ModelSlots(map[string]string{annSlots: *sc.Slots})
		}
		out := []Step{{K: "mkset", A: 0}}
		D := Desired(sc.Replicas, slots)
		for _, o := range D {
			out = append(out, Step{K: "mkpod", A: 0, B: int(o), C: ownThis | 3<<2, D: sc.Template})
		}
		// the pod that fails: one below the partition (pod index = rank among the names)
		below := 0
		for i, o := range D {
			if o < *sc.Partition {
				below = i
			}
		}
		fail := r.Intn(below + 1)
		out = append(out, Step{K: "boot"}, Step{K: "settle"},
			Step{K: "template", A: 0, B: (sc.Template + 1 + r.Intn(3)) % 4}, Step{K: "settle"},
			Step{K: "kube", A: fail, B: []int{3, 4}[r.Intn(2)]}, Step{K: "deliverall"})
		if r.Chance(0.4) {
			// or the pod below the partition is simply gone (evicted, deleted by hand)
			out = out[:len(out)-2]
			out = append(out, Step{K: "podrm", A: fail}, Step{K: "kube", A: fail, B: 5}, Step{K: "deliverall"})
		}
		return out
	}}
	profiles["sweeproll"] = profiles["sweeprollbase"]

	// rollfail: the same scenario with faults and crashes drawn by the scheduler
	// instead of enumerated (cheap enough for the exploration-level checks)
	profiles["rollfail"] = &Profile{Name: "rollfail", Tweak: func(r *PRNG, c *Config) {
		profiles["sweeprollbase"].Tweak(r, c)
		c.Dialect = "truthful"
		c.FaultPct = []int{20, 35, 50}[r.Intn(3)]
		c.Weights["crash"] = 3
		c.Weights["kube"] = 25
		c.Chaos = r.Range(15, 60)
	}, Prefix: profiles["sweeprollbase"].Prefix}
}

// sweepBaseOf maps a sweep profile of a job to the profile of its base schedules.
func sweepBaseOf(prof string) string {
	if prof == "sweep" {
		return "sweepbase"
	}
	return prof + "base"
}

// isSweepProfile: job profiles that stand for a fault enumeration.
func isSweepProfile(prof string) bool { return prof == "sweep" || prof == "sweeproll" }

var sweepPure = []int{FBefore500, FBeforeTimeout, FAfter500, FAfterTimeout}
var sweepRace = []int{FRace, FRace2}

// SweepPlans expands one seed into the fault plans of up to two of its reconciles.
func SweepPlans(t *testing.T, seed uint64, baseProfile string) []RunSpec {
	base := RunOne(t, RunSpec{Seed: seed, Profile: baseProfile, NoQuiesce: true})
	if base.Harness != "" {
		return []RunSpec{{Seed: seed, Profile: baseProfile}}
	}
	// reconciles by id -> their release steps
	byRec := map[int][]RelInfo{}
	var order []int
	for _, ri := range base.Releases {
		if ri.Rec == 0 {
			continue
		}
		if _, ok := byRec[ri.Rec]; !ok {
			order = append(order, ri.Rec)
		}
		byRec[ri.Rec] = append(byRec[ri.Rec], ri)
	}
	// prefer reconciles that write and that completed inside the schedule
	var cands []int
	for _, id := range order {
		rs := byRec[id]
		w := false
		for _, ri := range rs {
			w = w || ri.Write
		}
		if w && rs[len(rs)-1].Last && len(rs) <= 25 {
			cands = append(cands, id)
		}
	}
	r := NewPRNG(mix(seed, 0x5eeb))
	var specs []RunSpec
	for k := 0; k < 2 && len(cands) > 0; k++ {
		i := r.Intn(len(cands))
		if k == 0 && baseProfile == "sweeprollbase" {
			i = 0 // the first writing reconcile after the scenario prefix is the one aimed at
		}
		id := cands[i]
		cands = append(cands[:i], cands[i+1:]...)
		rs := byRec[id]
		end := rs[len(rs)-1].Step // 1-based step number of the last release
		ref := append([]Step{}, base.Steps[:end]...)
		mk := func(pure bool, steps []Step) {
			specs = append(specs, RunSpec{Seed: seed, Profile: baseProfile, Config: base.Config, Steps: steps, RefSteps: ref, PureFault: pure})
		}
		// The faulted schedule keeps every other step of the reference (user edits,
		// kubelet and cache actions between the calls of the reconcile): only the
		// release at the chosen position carries the fault (or is replaced by a
		// crash), and a "finish" step lets whatever is in flight complete.
		with := func(pos int, st Step) []Step {
			steps := append([]Step{}, ref...)
			steps[pos-1] = st
			return append(steps, Step{K: "finish"})
		}
		for _, ri := range rs {
			orig := base.Steps[ri.Step-1]
			for _, code := range sweepPure {
				f := orig
				f.B, f.C = code, 0
				mk(true, with(ri.Step, f))
			}
			for _, code := range sweepRace {
				f := orig
				f.B, f.C = code, r.Intn(4)
				mk(false, with(ri.Step, f))
			}
			mk(true, with(ri.Step, Step{K: "crash", A: 0}))
			mk(true, with(ri.Step, Step{K: "crash", A: 1}))
		}
		// sampled pairs of positions
		for p := 0; p < 2*len(rs) && len(rs) > 1; p++ {
			a := r.Intn(len(rs) - 1)
			b := a + 1 + r.Intn(len(rs)-a-1)
			steps := append([]Step{}, ref...)
			fa := steps[rs[a].Step-1]
			fa.B = sweepPure[r.Intn(len(sweepPure))]
			steps[rs[a].Step-1] = fa
			fb := steps[rs[b].Step-1]
			fb.B = sweepPure[r.Intn(len(sweepPure))]
			steps[rs[b].Step-1] = fb
			mk(true, append(steps, Step{K: "finish"}))
		}
	}
	if len(specs) == 0 {
		specs = append(specs, RunSpec{Seed: seed, Profile: baseProfile, Config: base.Config, Steps: base.Steps})
	}
	return specs
}

// RunSweep executes a sweep spec: the faulted schedule and its fault-free
// reference, each followed by the quiesce phase, and compares the final states.
func RunSweep(t *testing.T, spec RunSpec) *Result {
	fs := spec
	fs.RefSteps = nil
	res := RunOne(t, fs)
	res.Spec = spec
	if spec.RefSteps == nil || res.Harness != "" {
		return res
	}
	ref := RunOne(t, RunSpec{Seed: spec.Seed, Profile: spec.Profile, Config: spec.Config, Steps: spec.RefSteps})
	if ref.Harness != "" {
		res.Harness = "reference run: " + ref.Harness
		return res
	}
	res.Counters["sweep.points"]++
	if len(ref.Violations) > 0 || len(res.Violations) > 0 {
		return res // judged by the other oracles; equivalence is only meaningful for clean runs
	}
	if spec.PureFault && res.Dump != ref.Dump {
		res.Violations = append(res.Violations, Violation{Prop: "C09", Check: "C09.final-state-differs", Disc: diffClass(ref.Dump, res.Dump),
			Detail: "after a failure and recovery the final state differs from the fault-free run's: " + firstDiff(ref.Dump, res.Dump)})
	}
	res.Counters["sweep.compared"]++
	return res
}

func diffClass(a, b string) string {
	la, lb := strings.Split(a, "\n"), strings.Split(b, "\n")
	for i := 0; i < len(la) || i < len(lb); i++ {
		x, y := "", ""
		if i < len(la) {
			x = la[i]
		}
		if i < len(lb) {
			y = lb[i]
		}
		if x != y {
			z := x
			if z == "" {
				z = y
			}
			return strings.SplitN(z, " ", 2)[0]
		}
	}
	return "none"
}

// finalDump is the part of the final state that the final spec determines
// (what "the same final state as a run without failures" can mean when other
// actors keep acting between the failure and the recovery): per set the names of
// the pods it controls with their claims, the template content of every pod the
// update strategy obliges to be current (RollingUpdate, ordinal >= partition),
// status.replicas / readyReplicas, and the content of the update revision.
// History-dependent leftovers are excluded on purpose: claims of ordinals that
// were scaled in, revisions recorded for intermediate templates, the revision
// of pods below a partition or under OnDelete, objects nobody controls.
func (s *Sim) finalDump() string {
	var lines []string
	revContent := map[string]string{}
	for _, r := range All[*appsv1.ControllerRevision](s.Store, KRev) {
		if t, ok := RevTemplate(r); ok {
			revContent[r.Name] = fmt.Sprintf("%x", hashStr(t))
		} else {
			revContent[r.Name] = "undecodable"
		}
	}
	for _, ky := range s.Store.Keys(KSet) {
		set := s.Store.tables[KSet][ky].(*asv1.StatefulSet)
		st := set.Status
		lines = append(lines, fmt.Sprintf("set %s replicas=%d slots=%q deleting=%v paused=%v status.replicas=%d ready=%d upd=%s", set.Name, specReplicas(set), set.Annotations[annSlots],
			set.DeletionTimestamp != nil, set.Annotations[annPaused] == "true", st.Replicas, st.ReadyReplicas, revContent[st.UpdateRevision]))
		if set.DeletionTimestamp != nil || set.Annotations[annPaused] == "true" {
			// frozen where the flag caught it: history-dependent by design
			lines[len(lines)-1] = fmt.Sprintf("set %s deleting=%v paused=%v", set.Name, set.DeletionTimestamp != nil, set.Annotations[annPaused] == "true")
			continue
		}
		part := int32(1 << 30)
		if set.Spec.UpdateStrategy.Type == asv1.RollingUpdateStatefulSetStrategyType {
			part = 0
			if ru := set.Spec.UpdateStrategy.RollingUpdate; ru != nil && ru.Partition != nil {
				part = *ru.Partition
			}
		}
		for _, pk := range s.Store.Keys(KPod) {
			p := s.Store.tables[KPod][pk].(*v1.Pod)
			ref := controllerOf(p)
			if ref == nil || ref.UID != set.UID {
				continue
			}
			var claims []string
			for _, vol := range p.Spec.Volumes {
				if vol.PersistentVolumeClaim != nil {
					claims = append(claims, vol.PersistentVolumeClaim.ClaimName)
				}
			}
			sort.Strings(claims)
			content := "-"
			if _, ord, ok := podOrdinal(p.Name); ok && ord >= part && set.DeletionTimestamp == nil && set.Annotations[annPaused] != "true" {
				content = revContent[podRevision(p)]
			}
			lines = append(lines, fmt.Sprintf("pod %s of %s ready=%v content=%s claims=%v", p.Name, set.Name, podRunningReady(p), content, claims))
		}
	}
	return strings.Join(lines, "\n")
}
