package sim

import (
	"fmt"

	v1 "k8s.io/api/core/v1"

	metav1 "k8s.io/apimachinery/pkg/apis/meta/v1"

	asv1 "github.com/pingcap/advanced-statefulset/client/apis/apps/v1"
)

// SetCfg describes one StatefulSet as its user first submits it.
type SetCfg struct {
	Name         string            `json:"name"`
	Labels       map[string]string `json:"labels"`
	Policy       string            `json:"policy"`   // "", OrderedReady, Parallel, or garbage (hostile)
	Strategy     string            `json:"strategy"` // "", RollingUpdate, OnDelete, or garbage
	HasRU        bool              `json:"has_ru"`   // rollingUpdate block present
	Partition    *int32            `json:"partition"`
	Replicas     int32             `json:"replicas"`
	Slots        *string           `json:"slots"` // raw annotation value
	Claims       int               `json:"claims"`
	ClaimLabels  bool              `json:"claim_labels"`
	HistoryLimit int32             `json:"history_limit"`
	Template     int               `json:"template"`
	Paused       bool              `json:"paused"`
	Defaulted    bool              `json:"defaulted"` // run the client-side defaulter before storing
	ExprSelector bool              `json:"expr_selector"`
	Hostile      int               `json:"hostile"` // >0: hostile variations (C15 profile)
}

// Config is the static part of a run; together with the seed and the step list
// it determines the run exactly.
type Config struct {
	Profile  string   `json:"profile"`
	Sets     []SetCfg `json:"sets"`
	Workers  int      `json:"workers"`
	Graceful bool     `json:"graceful"`
	NoRotate bool     `json:"no_rotate"`
	Dialect  string   `json:"dialect"` // none, truthful, lying
	Chaos    int      `json:"chaos"`   // number of generated chaos steps
	Quiesce  bool     `json:"quiesce"` // run the deterministic quiesce phase and the liveness oracle
	// Liveness is false when the profile contains things C02's premise excludes
	// (foreign squatters that nobody removes, hostile specs, lying faults).
	Liveness bool `json:"liveness"`
	// Weights of step kinds for the generator (not used on replay).
	Weights          map[string]int `json:"weights,omitempty"`
	FaultPct         int            `json:"fault_pct"` // percent of releases that carry a fault
	Twin             bool           `json:"twin,omitempty"`
	KubeProgressOnly bool           `json:"kube_progress_only,omitempty"`
	ScaleInWatch     bool           `json:"scale_in_watch,omitempty"`
	// FaultOnlyStatus: faults are drawn only for status writes (and then often)
	FaultOnlyStatus bool `json:"fault_only_status,omitempty"`
	// LateResultChan (watchsim): the consumer fetches the result channel at its first read.
	LateResultChan bool `json:"late_result_chan,omitempty"`
	// StatusOutage: every status write fails until the chaos phase ends.
	StatusOutage bool `json:"status_outage,omitempty"`
	// UnpauseAtQuiesce: the user lifts every pause before the quiesce phase, so
	// that resumption and convergence after a pause are demanded (C11)
	UnpauseAtQuiesce bool    `json:"unpause_at_quiesce,omitempty"`
	Upg              *UpgCfg `json:"upg,omitempty"`
}

// BuildSet returns the object a user submits for cfg.
func BuildSet(c *SetCfg) *asv1.StatefulSet {
	s := &asv1.StatefulSet{}
	s.TypeMeta = metav1.TypeMeta{APIVersion: crdAPIVersion, Kind: crdKind}
	s.Namespace = NS
	s.Name = c.Name
	s.Spec.Replicas = int32p(c.Replicas)
	if c.ExprSelector {
		var reqs []metav1.LabelSelectorRequirement
		for _, k := range sortedKeys(c.Labels) {
			reqs = append(reqs, metav1.LabelSelectorRequirement{Key: k, Operator: metav1.LabelSelectorOpIn, Values: []string{c.Labels[k]}})
		}
		s.Spec.Selector = &metav1.LabelSelector{MatchExpressions: reqs}
	} else {
		s.Spec.Selector = &metav1.LabelSelector{MatchLabels: map[string]string{}}
		for k, v := range c.Labels {
			s.Spec.Selector.MatchLabels[k] = v
		}
	}
	s.Spec.Template = Template(c.Labels, c.Template)
	s.Spec.ServiceName = "svc-" + c.Name
	s.Spec.PodManagementPolicy = asv1.PodManagementPolicyType(c.Policy)
	s.Spec.UpdateStrategy.Type = asv1.StatefulSetUpdateStrategyType(c.Strategy)
	if c.HasRU {
		s.Spec.UpdateStrategy.RollingUpdate = &asv1.RollingUpdateStatefulSetStrategy{}
		if c.Partition != nil {
			s.Spec.UpdateStrategy.RollingUpdate.Partition = int32p(*c.Partition)
		}
	}
	s.Spec.RevisionHistoryLimit = int32p(c.HistoryLimit)
	s.Spec.VolumeClaimTemplates = claimTemplates(c.Claims, c.ClaimLabels)
	if c.Slots != nil {
		s.Annotations = map[string]string{annSlots: *c.Slots}
	}
	if c.Paused {
		if s.Annotations == nil {
			s.Annotations = map[string]string{}
		}
		s.Annotations[annPaused] = "true"
	}
	applyHostile(s, c)
	if c.Defaulted {
		asv1.SetObjectDefaults_StatefulSet(s)
	}
	return s
}

// applyHostile produces objects the shipped CRD schema admits (replicas and
// revisionHistoryLimit present and >= 0; selector, template, serviceName
// present) but which no test constructor builds (C15).
func applyHostile(s *asv1.StatefulSet, c *SetCfg) {
	switch c.Hostile {
	case 0:
		return
	case 1: // README example: no strategy, no policy
		s.Spec.PodManagementPolicy = ""
		s.Spec.UpdateStrategy = asv1.StatefulSetUpdateStrategy{}
	case 2: // rollingUpdate: {} under RollingUpdate
		s.Spec.UpdateStrategy = asv1.StatefulSetUpdateStrategy{Type: asv1.RollingUpdateStatefulSetStrategyType, RollingUpdate: &asv1.RollingUpdateStatefulSetStrategy{}}
	case 3: // rollingUpdate: {} under OnDelete
		s.Spec.UpdateStrategy = asv1.StatefulSetUpdateStrategy{Type: asv1.OnDeleteStatefulSetStrategyType, RollingUpdate: &asv1.RollingUpdateStatefulSetStrategy{}}
	case 4: // rollingUpdate: {} with no type
		s.Spec.UpdateStrategy = asv1.StatefulSetUpdateStrategy{RollingUpdate: &asv1.RollingUpdateStatefulSetStrategy{}}
	case 5: // negative partition
		s.Spec.UpdateStrategy = asv1.StatefulSetUpdateStrategy{Type: asv1.RollingUpdateStatefulSetStrategyType, RollingUpdate: &asv1.RollingUpdateStatefulSetStrategy{Partition: int32p(-1 - c.Replicas)}}
	case 6: // huge partition
		s.Spec.UpdateStrategy = asv1.StatefulSetUpdateStrategy{Type: asv1.RollingUpdateStatefulSetStrategyType, RollingUpdate: &asv1.RollingUpdateStatefulSetStrategy{Partition: int32p(1 << 30)}}
	case 7: // unknown strings
		s.Spec.PodManagementPolicy = "Sideways"
		s.Spec.UpdateStrategy.Type = "Sometimes"
	case 8: // empty selector
		s.Spec.Selector = &metav1.LabelSelector{}
	case 9: // invalid selector
		s.Spec.Selector = &metav1.LabelSelector{MatchExpressions: []metav1.LabelSelectorRequirement{{Key: "app", Operator: metav1.LabelSelectorOpIn}}}
	case 10: // empty template
		s.Spec.Template = v1.PodTemplateSpec{}
	case 11: // arbitrary status block
		s.Status = asv1.StatefulSetStatus{ObservedGeneration: 99, Replicas: -3, ReadyReplicas: 7, CurrentReplicas: -1, UpdatedReplicas: 1 << 30, CurrentRevision: "nonsense", UpdateRevision: "", CollisionCount: int32p(-5)}
	case 12: // negative partition under OnDelete, unknown policy
		s.Spec.PodManagementPolicy = "parallel"
		s.Spec.UpdateStrategy = asv1.StatefulSetUpdateStrategy{Type: asv1.OnDeleteStatefulSetStrategyType, RollingUpdate: &asv1.RollingUpdateStatefulSetStrategy{Partition: int32p(-2)}}
	case 13: // selector that does not match the template
		s.Spec.Selector = &metav1.LabelSelector{MatchLabels: map[string]string{"app": "nobody"}}
	case 14: // expression-only selector with claim templates (no matchLabels)
		s.Spec.Selector = &metav1.LabelSelector{MatchExpressions: []metav1.LabelSelectorRequirement{{Key: "app", Operator: metav1.LabelSelectorOpExists}}}
	}
}

func (c *SetCfg) String() string {
	sl := "-"
	if c.Slots != nil {
		sl = *c.Slots
	}
	p := "nil"
	if c.Partition != nil {
		p = fmt.Sprint(*c.Partition)
	}
	return fmt.Sprintf("%s r=%d slots=%s %s/%s ru=%v part=%s claims=%d hist=%d tmpl=%d", c.Name, c.Replicas, sl, c.Policy, c.Strategy, c.HasRU, p, c.Claims, c.HistoryLimit, c.Template)
}

// TemplateFor returns template version v as it appears in a set built from c:
// when the set is submitted through the client-side defaulter, so is its pod
// template, and revisions / pods of that version carry the defaulted content.
func TemplateFor(c *SetCfg, v int) v1.PodTemplateSpec {
	t := Template(c.Labels, v)
	if !c.Defaulted {
		return t
	}
	tmp := &asv1.StatefulSet{}
	tmp.Spec.Template = t
	asv1.SetObjectDefaults_StatefulSet(tmp)
	return tmp.Spec.Template
}
