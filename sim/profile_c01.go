package sim

// C01 profile: exotic annotation values through raw writes; the helper half of
// C01 is evaluated on every (replicas, annotation) pair that appears in the store.

var exoticSlots = []string{
	"", "[]", "[ ]", "null", "{}", "\"1\"", "[1", "1,2", "[1.5]", "[1e0]", "[\"1\"]", "[true]", "[1,1,1]", "[0]", "[0,1,2,3]",
	"[-1]", "[-1,0]", "[-5,2]", "[-2147483648]", "[2147483647]", "[2147483648]", "[99999999999]", "[2,2147483647]",
	"[1]]", "[1],", "[1] [0]", "[1]garbage", "[0]\n[2]", "[1,2] ,", "[2]}",
	"[\"1\",\"2\"]", "[1,\"2\"]", "[[1]]", "[2.5,null]", "[null]", "[{}]", "[1,[2]]",
	"[1,3,5,7]", "[0,2,4,6,8,10]", "[7]", "[100]", "[3,2,1]", "[0, 1]", " [1] ", "[1,-1]", "[6,0]",
}

func init() {
	profiles["c01"] = &Profile{Name: "c01", Tweak: func(r *PRNG, c *Config) {
		for i := range c.Sets {
			sl := exoticSlots[r.Intn(len(exoticSlots))]
			c.Sets[i].Slots = &sl
			c.Sets[i].Replicas = int32(r.Intn(9))
		}
		c.Weights["xslots"] = 25
		c.Weights["replicas"] = 10
		c.Chaos = r.Range(20, 80)
		// ill-formed annotations are outside C02's premise ("well-formed delete-slots")
		c.Liveness = false
	}}
}
