package sim

// The simulated API server + etcd. Semantics are listed in DESIGN.md §3.2; every
// oracle's soundness depends on this file, so it is deliberately small and
// explicit. Nothing here reads a clock or a PRNG.

import (
	"encoding/json"
	"fmt"
	"reflect"
	"sort"
	"time"

	appsv1 "k8s.io/api/apps/v1"
	v1 "k8s.io/api/core/v1"
	apierrors "k8s.io/apimachinery/pkg/api/errors"
	metav1 "k8s.io/apimachinery/pkg/apis/meta/v1"
	"k8s.io/apimachinery/pkg/labels"
	"k8s.io/apimachinery/pkg/runtime"
	"k8s.io/apimachinery/pkg/runtime/schema"
	"k8s.io/apimachinery/pkg/types"
	"k8s.io/apimachinery/pkg/util/strategicpatch"
	"k8s.io/apimachinery/pkg/util/validation/field"
	"k8s.io/apimachinery/pkg/watch"

	asv1 "github.com/pingcap/advanced-statefulset/client/apis/apps/v1"
)

// Kind identifies a resource table of the store.
type Kind int

const (
	KPod Kind = iota
	KPVC
	KRev
	KSet  // apps.pingcap.com StatefulSet (the CRD)
	KBSet // built-in apps/v1 StatefulSet
	numKinds
)

var kindNames = [...]string{"pods", "persistentvolumeclaims", "controllerrevisions", "statefulsets.pingcap", "statefulsets.apps"}

func (k Kind) String() string { return kindNames[k] }

var kindGR = [...]schema.GroupResource{
	{Group: "", Resource: "pods"},
	{Group: "", Resource: "persistentvolumeclaims"},
	{Group: "apps", Resource: "controllerrevisions"},
	{Group: "apps.pingcap.com", Resource: "statefulsets"},
	{Group: "apps", Resource: "statefulsets"},
}

var kindGK = [...]schema.GroupKind{
	{Group: "", Kind: "Pod"},
	{Group: "", Kind: "PersistentVolumeClaim"},
	{Group: "apps", Kind: "ControllerRevision"},
	{Group: "apps.pingcap.com", Kind: "StatefulSet"},
	{Group: "apps", Kind: "StatefulSet"},
}

// Obj is what the store holds: pointers to typed API structs.
type Obj interface {
	metav1.Object
	runtime.Object
}

// WatchEvent is one pending cache notification.
type WatchEvent struct {
	Type watch.EventType
	Obj  Obj
}

// epoch is the fixed origin of all store timestamps (logical, never time.Now()).
var epoch = time.Date(2020, 1, 1, 0, 0, 0, 0, time.UTC)

// Store is the simulated API server.
type Store struct {
	rv      int64
	stamps  int64
	uidSeq  map[string]int
	tables  [numKinds]map[string]Obj
	pending [numKinds][]WatchEvent
	// Graceful decides whether deleting a running pod is graceful (sets a
	// deletionTimestamp and waits for the kubelet actor) or immediate.
	Graceful bool
	// Mutations counts successful writes (used by quiescence detection).
	Mutations int64
	// DeleteOpts records delete options per applied delete (kind, key) in order.
	DeleteLog []DeleteRecord
	// OnMutate, if set, is called for every successful write (kind).
	OnMutate func(k Kind)
}

type DeleteRecord struct {
	Kind Kind
	Key  string
	Opts metav1.DeleteOptions
}

func NewStore() *Store {
	s := &Store{uidSeq: map[string]int{}}
	for k := range s.tables {
		s.tables[k] = map[string]Obj{}
	}
	return s
}

func key(ns, name string) string { return ns + "/" + name }

func cp[T Obj](o T) T { return o.DeepCopyObject().(T) }

func (s *Store) nextRV() string {
	s.rv++
	return fmt.Sprint(s.rv)
}

func (s *Store) notify(k Kind, t watch.EventType, o Obj) {
	s.Mutations++
	if s.OnMutate != nil {
		s.OnMutate(k)
	}
	s.pending[k] = append(s.pending[k], WatchEvent{Type: t, Obj: cp(o)})
}

// newUID derives a UID from kind, key and a per-key creation counter, so that
// the UID of an object does not depend on the order in which unrelated objects
// were created (DESIGN.md §3.7).
func (s *Store) newUID(k Kind, ky string) types.UID {
	id := fmt.Sprintf("%s:%s", kindNames[k], ky)
	s.uidSeq[id]++
	return types.UID(fmt.Sprintf("%s#%d", id, s.uidSeq[id]))
}

// ---- generic verbs -------------------------------------------------------

func stGet[T Obj](s *Store, k Kind, ns, name string) (T, error) {
	var zero T
	o, ok := s.tables[k][key(ns, name)]
	if !ok {
		return zero, apierrors.NewNotFound(kindGR[k], name)
	}
	return cp(o.(T)), nil
}

func stList[T Obj](s *Store, k Kind, ns string, sel labels.Selector) []T {
	var out []T
	for _, o := range s.tables[k] {
		if ns != "" && o.GetNamespace() != ns {
			continue
		}
		if sel != nil && !sel.Matches(labels.Set(o.GetLabels())) {
			continue
		}
		out = append(out, cp(o.(T)))
	}
	sort.Slice(out, func(i, j int) bool {
		if out[i].GetNamespace() != out[j].GetNamespace() {
			return out[i].GetNamespace() < out[j].GetNamespace()
		}
		return out[i].GetName() < out[j].GetName()
	})
	return out
}

func stCreate[T Obj](s *Store, k Kind, ns string, in T) (T, error) {
	var zero T
	o := cp(in)
	if o.GetNamespace() == "" {
		o.SetNamespace(ns)
	}
	if o.GetNamespace() != ns {
		return zero, apierrors.NewBadRequest("the namespace of the provided object does not match the namespace sent on the request")
	}
	if o.GetName() == "" {
		return zero, apierrors.NewInvalid(kindGK[k], "", field.ErrorList{field.Required(field.NewPath("metadata", "name"), "name or generateName is required")})
	}
	ky := key(ns, o.GetName())
	if _, ok := s.tables[k][ky]; ok {
		return zero, apierrors.NewAlreadyExists(kindGR[k], o.GetName())
	}
	if err := validateOwners(k, o); err != nil {
		return zero, err
	}
	o.SetUID(s.newUID(k, ky))
	o.SetResourceVersion(s.nextRV())
	o.SetGeneration(1)
	s.stamps++
	o.SetCreationTimestamp(metav1.NewTime(epoch.Add(time.Duration(s.stamps) * time.Second)))
	o.SetDeletionTimestamp(nil)
	o.SetGenerateName("")
	switch x := any(o).(type) {
	case *v1.Pod:
		// The registry's PrepareForCreate sets phase Pending; isCreated relies on it.
		x.Status = v1.PodStatus{Phase: v1.PodPending}
	case *asv1.StatefulSet:
		// status subresource is enabled in manifests/crd.v1.yaml: create drops .status
		x.Status = asv1.StatefulSetStatus{}
	case *appsv1.StatefulSet:
		x.Status = appsv1.StatefulSetStatus{}
	}
	s.tables[k][ky] = o
	s.notify(k, watch.Added, o)
	return cp(o), nil
}

// stUpdate implements PUT on the main resource (sub == "") or on the status
// subresource (sub == "status").
func stUpdate[T Obj](s *Store, k Kind, ns string, in T, sub string) (T, error) {
	var zero T
	ky := key(ns, in.GetName())
	curO, ok := s.tables[k][ky]
	if !ok {
		return zero, apierrors.NewNotFound(kindGR[k], in.GetName())
	}
	cur := curO.(T)
	if in.GetNamespace() != "" && in.GetNamespace() != ns {
		return zero, apierrors.NewBadRequest("the namespace of the provided object does not match the namespace sent on the request")
	}
	if rv := in.GetResourceVersion(); rv != "" && rv != cur.GetResourceVersion() {
		return zero, apierrors.NewConflict(kindGR[k], in.GetName(), fmt.Errorf("the object has been modified; please apply your changes to the latest version and try again"))
	}
	if uid := in.GetUID(); uid != "" && uid != cur.GetUID() {
		return zero, apierrors.NewConflict(kindGR[k], in.GetName(), fmt.Errorf("Precondition failed: UID in precondition: %v, UID in object meta: %v", uid, cur.GetUID()))
	}
	o := cp(in)
	o.SetNamespace(ns)
	// immutable / server-owned metadata
	o.SetUID(cur.GetUID())
	o.SetCreationTimestamp(cur.GetCreationTimestamp())
	o.SetDeletionTimestamp(cur.GetDeletionTimestamp())
	o.SetDeletionGracePeriodSeconds(cur.GetDeletionGracePeriodSeconds())
	o.SetGeneration(cur.GetGeneration())
	if sub == "status" {
		// only .status changes; everything else comes from the stored object
		n := cp(cur)
		switch x := any(n).(type) {
		case *asv1.StatefulSet:
			x.Status = *any(o).(*asv1.StatefulSet).Status.DeepCopy()
		case *appsv1.StatefulSet:
			x.Status = *any(o).(*appsv1.StatefulSet).Status.DeepCopy()
		case *v1.Pod:
			x.Status = *any(o).(*v1.Pod).Status.DeepCopy()
		default:
			return zero, apierrors.NewBadRequest("no status subresource")
		}
		o = n
	} else {
		switch x := any(o).(type) {
		case *asv1.StatefulSet:
			c := any(cur).(*asv1.StatefulSet)
			x.Status = *c.Status.DeepCopy()
			if !reflect.DeepEqual(normJSON(x.Spec), normJSON(c.Spec)) {
				x.Generation = c.Generation + 1
			}
		case *appsv1.StatefulSet:
			c := any(cur).(*appsv1.StatefulSet)
			x.Status = *c.Status.DeepCopy()
			if !reflect.DeepEqual(normJSON(x.Spec), normJSON(c.Spec)) {
				x.Generation = c.Generation + 1
			}
		case *appsv1.ControllerRevision:
			c := any(cur).(*appsv1.ControllerRevision)
			if string(x.Data.Raw) != string(c.Data.Raw) {
				return zero, apierrors.NewInvalid(kindGK[k], x.Name, field.ErrorList{field.Invalid(field.NewPath("data"), "<data>", "field is immutable")})
			}
		case *v1.Pod:
			c := any(cur).(*v1.Pod)
			// main-resource update never changes status
			x.Status = *c.Status.DeepCopy()
			if err := validatePodUpdate(c, x); err != nil {
				return zero, err
			}
		}
		if err := validateOwners(k, o); err != nil {
			return zero, err
		}
	}
	o.SetResourceVersion(s.nextRV())
	s.tables[k][ky] = o
	s.notify(k, watch.Modified, o)
	s.finalizeIfDone(k, ky)
	return cp(o), nil
}

// validatePodUpdate mirrors ValidatePodUpdate: only image, activeDeadlineSeconds,
// tolerations and terminationGracePeriodSeconds may change in spec. The
// controller's UpdateStatefulPod may change volumes (updateStorage), which the
// real server rejects as Forbidden(Invalid).
func validatePodUpdate(old, new *v1.Pod) error {
	o, n := old.Spec.DeepCopy(), new.Spec.DeepCopy()
	for i := range n.Containers {
		if i < len(o.Containers) {
			o.Containers[i].Image = n.Containers[i].Image
		}
	}
	if !reflect.DeepEqual(normJSON(o), normJSON(n)) {
		return apierrors.NewInvalid(kindGK[KPod], new.Name, field.ErrorList{field.Forbidden(field.NewPath("spec"), "pod updates may not change fields other than `spec.containers[*].image`")})
	}
	return nil
}

func normJSON(v any) any {
	b, err := json.Marshal(v)
	if err != nil {
		panic(err)
	}
	var out any
	if err := json.Unmarshal(b, &out); err != nil {
		panic(err)
	}
	return out
}

// validateOwners rejects an object with two controller owner references, as
// ValidateOwnerReferences does.
func validateOwners(k Kind, o Obj) error {
	n := 0
	for _, r := range o.GetOwnerReferences() {
		if r.Controller != nil && *r.Controller {
			n++
		}
	}
	if n > 1 {
		return apierrors.NewInvalid(kindGK[k], o.GetName(), field.ErrorList{field.Invalid(field.NewPath("metadata", "ownerReferences"), "<refs>", "Only one reference can have Controller set to true")})
	}
	return nil
}

// stPatch applies a strategic merge patch (the only kind the code uses).
func stPatch[T Obj](s *Store, k Kind, ns, name string, pt types.PatchType, data []byte) (T, error) {
	var zero T
	ky := key(ns, name)
	curO, ok := s.tables[k][ky]
	if !ok {
		return zero, apierrors.NewNotFound(kindGR[k], name)
	}
	if pt != types.StrategicMergePatchType {
		return zero, apierrors.NewBadRequest("simulated API server supports strategic merge patch only")
	}
	cur := curO.(T)
	// the two documented Invalid cases of ReleasePod
	var p struct {
		Metadata struct {
			UID             types.UID        `json:"uid"`
			OwnerReferences []map[string]any `json:"ownerReferences"`
		} `json:"metadata"`
	}
	if err := json.Unmarshal(data, &p); err != nil {
		return zero, apierrors.NewBadRequest("invalid patch: " + err.Error())
	}
	if p.Metadata.UID != "" && p.Metadata.UID != cur.GetUID() {
		return zero, apierrors.NewInvalid(kindGK[k], name, field.ErrorList{field.Invalid(field.NewPath("metadata", "uid"), string(p.Metadata.UID), "field is immutable")})
	}
	for _, r := range p.Metadata.OwnerReferences {
		if r["$patch"] == "delete" && len(cur.GetOwnerReferences()) == 0 {
			return zero, apierrors.NewInvalid(kindGK[k], name, field.ErrorList{field.Invalid(field.NewPath("metadata", "ownerReferences"), "<patch>", "delete directive on an object without owner references")})
		}
	}
	origJSON, err := json.Marshal(cur)
	if err != nil {
		panic(err)
	}
	var dataStruct T
	dataStruct = reflect.New(reflect.TypeOf(dataStruct).Elem()).Interface().(T)
	merged, err := strategicpatch.StrategicMergePatch(origJSON, data, dataStruct)
	if err != nil {
		return zero, apierrors.NewBadRequest("patch failed: " + err.Error())
	}
	o := reflect.New(reflect.TypeOf(dataStruct).Elem()).Interface().(T)
	if err := json.Unmarshal(merged, o); err != nil {
		return zero, apierrors.NewBadRequest("patch result undecodable: " + err.Error())
	}
	if err := validateOwners(k, o); err != nil {
		return zero, err
	}
	if rev, ok := any(o).(*appsv1.ControllerRevision); ok {
		if string(rev.Data.Raw) != string(any(cur).(*appsv1.ControllerRevision).Data.Raw) {
			// json round trip of RawExtension keeps bytes; anything else is a data change
			rev.Data = *any(cur).(*appsv1.ControllerRevision).Data.DeepCopy()
		}
	}
	o.SetUID(cur.GetUID())
	o.SetCreationTimestamp(cur.GetCreationTimestamp())
	o.SetDeletionTimestamp(cur.GetDeletionTimestamp())
	o.SetGeneration(cur.GetGeneration())
	o.SetNamespace(ns)
	o.SetName(name)
	if reflect.DeepEqual(normJSON(o), normJSON(cur)) {
		return cp(cur), nil // no-op patch: no new RV, no event
	}
	o.SetResourceVersion(s.nextRV())
	s.tables[k][ky] = o
	s.notify(k, watch.Modified, o)
	s.finalizeIfDone(k, ky)
	return cp(o), nil
}

const (
	finOrphan     = "orphan"
	finForeground = "foregroundDeletion"
)

// stDelete implements DELETE.
func stDelete(s *Store, k Kind, ns, name string, opts metav1.DeleteOptions) error {
	ky := key(ns, name)
	cur, ok := s.tables[k][ky]
	if !ok {
		return apierrors.NewNotFound(kindGR[k], name)
	}
	if opts.Preconditions != nil && opts.Preconditions.UID != nil && *opts.Preconditions.UID != cur.GetUID() {
		return apierrors.NewConflict(kindGR[k], name, fmt.Errorf("Precondition failed: UID in precondition: %v, UID in object meta: %v", *opts.Preconditions.UID, cur.GetUID()))
	}
	s.DeleteLog = append(s.DeleteLog, DeleteRecord{Kind: k, Key: ky, Opts: *opts.DeepCopy()})
	switch x := cur.(type) {
	case *v1.Pod:
		if x.DeletionTimestamp != nil {
			return nil // already terminating: no change
		}
		terminal := x.Status.Phase == v1.PodFailed || x.Status.Phase == v1.PodSucceeded
		zeroGrace := opts.GracePeriodSeconds != nil && *opts.GracePeriodSeconds == 0
		if s.Graceful && !terminal && !zeroGrace && x.Spec.NodeName != "" {
			s.markDeleting(k, ky, cur, nil)
			return nil
		}
		s.remove(k, ky)
		return nil
	case *asv1.StatefulSet, *appsv1.StatefulSet:
		if cur.GetDeletionTimestamp() != nil {
			return nil
		}
		policy := metav1.DeletePropagationBackground
		if opts.PropagationPolicy != nil {
			policy = *opts.PropagationPolicy
		}
		switch policy {
		case metav1.DeletePropagationOrphan:
			s.markDeleting(k, ky, cur, []string{finOrphan})
		case metav1.DeletePropagationForeground:
			s.markDeleting(k, ky, cur, []string{finForeground})
		default:
			if len(cur.GetFinalizers()) > 0 {
				s.markDeleting(k, ky, cur, nil)
			} else {
				s.remove(k, ky)
			}
		}
		return nil
	default:
		if len(cur.GetFinalizers()) > 0 {
			if cur.GetDeletionTimestamp() == nil {
				s.markDeleting(k, ky, cur, nil)
			}
			return nil
		}
		s.remove(k, ky)
		return nil
	}
}

func (s *Store) markDeleting(k Kind, ky string, cur Obj, addFinalizers []string) {
	o := cp(cur)
	s.stamps++
	t := metav1.NewTime(epoch.Add(time.Duration(s.stamps) * time.Second))
	o.SetDeletionTimestamp(&t)
	if k == KPod && s.stamps%3 == 0 {
		// every third pod deletion is a force delete (grace period 0) that still lingers
		zero := int64(0)
		o.SetDeletionGracePeriodSeconds(&zero)
	}
	o.SetFinalizers(append(append([]string{}, o.GetFinalizers()...), addFinalizers...))
	if k == KSet || k == KBSet {
		// deletionTimestamp on a CR bumps generation in the real registry
		o.SetGeneration(o.GetGeneration() + 1)
	}
	o.SetResourceVersion(s.nextRV())
	s.tables[k][ky] = o
	s.notify(k, watch.Modified, o)
}

func (s *Store) remove(k Kind, ky string) {
	o := s.tables[k][ky]
	delete(s.tables[k], ky)
	final := cp(o)
	final.SetResourceVersion(s.nextRV())
	s.notify(k, watch.Deleted, final)
}

// finalizeIfDone removes an object whose deletionTimestamp is set and whose
// finalizer list has become empty.
func (s *Store) finalizeIfDone(k Kind, ky string) {
	o, ok := s.tables[k][ky]
	if ok && o.GetDeletionTimestamp() != nil && len(o.GetFinalizers()) == 0 {
		if _, isPod := o.(*v1.Pod); isPod {
			return // pods wait for the kubelet actor
		}
		s.remove(k, ky)
	}
}

// ---- direct (actor) mutations: not API calls of the system under test ------

// Mutate applies fn to the stored object (a fresh copy), bumps the RV and
// emits a Modified event. fn returns false to abort. Used by actors (kubelet,
// users, GC) whose writes are atomic simulator actions.
func Mutate[T Obj](s *Store, k Kind, ns, name string, fn func(T) bool) bool {
	ky := key(ns, name)
	cur, ok := s.tables[k][ky]
	if !ok {
		return false
	}
	o := cp(cur.(T))
	if !fn(o) {
		return false
	}
	if set, ok := any(o).(*asv1.StatefulSet); ok {
		c := cur.(*asv1.StatefulSet)
		if !reflect.DeepEqual(normJSON(set.Spec), normJSON(c.Spec)) {
			set.Generation = c.Generation + 1
		}
	}
	o.SetResourceVersion(s.nextRV())
	s.tables[k][ky] = o
	s.notify(k, watch.Modified, o)
	s.finalizeIfDone(k, ky)
	return true
}

// Remove deletes an object unconditionally (kubelet finishing a termination, GC).
func (s *Store) Remove(k Kind, ns, name string) bool {
	ky := key(ns, name)
	if _, ok := s.tables[k][ky]; !ok {
		return false
	}
	s.remove(k, ky)
	return true
}

// Peek returns the stored object without copying. Callers must not modify it.
func Peek[T Obj](s *Store, k Kind, ns, name string) (T, bool) {
	o, ok := s.tables[k][key(ns, name)]
	if !ok {
		var zero T
		return zero, false
	}
	return o.(T), true
}

// Keys returns the sorted keys of a table.
func (s *Store) Keys(k Kind) []string {
	out := make([]string, 0, len(s.tables[k]))
	for ky := range s.tables[k] {
		out = append(out, ky)
	}
	sort.Strings(out)
	return out
}

// All returns copies of all objects of a kind sorted by key.
func All[T Obj](s *Store, k Kind) []T {
	return stList[T](s, k, "", nil)
}
