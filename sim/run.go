package sim

// One simulated run = one seed = one synctest bubble (DESIGN.md §3).

import (
	"runtime/debug"
	"flag"
	"fmt"
	"io"
	"strings"
	"sync"
	"testing"
	"testing/synctest"
	"time"

	utilruntime "k8s.io/apimachinery/pkg/util/runtime"
	"k8s.io/client-go/util/retry"
	"k8s.io/klog/v2"
)

var pinOnce sync.Once

// recovered panics reported through utilruntime.PanicHandlers (process-wide; a
// bubble resets it before it starts)
var crashReports []string
var crashStacks []string
var crashMu sync.Mutex

// takeCrashReports returns and clears the panics that utilruntime.HandleCrash
// recovered since the last call (with ReallyCrash, the shipped default, each of
// them kills the process; the harness runs with ReallyCrash off so that it
// survives to report them).
func takeCrashReports() (reports, stacks []string) {
	crashMu.Lock()
	defer crashMu.Unlock()
	reports, stacks = crashReports, crashStacks
	crashReports, crashStacks = nil, nil
	return
}

// Pin sets the determinism pins of DESIGN.md §3.7 (harness side only).
func Pin() {
	pinOnce.Do(func() {
		retry.DefaultRetry.Jitter = 0
		retry.DefaultBackoff.Jitter = 0
		utilruntime.ErrorHandlers = []func(error){func(error) {}}
		utilruntime.ReallyCrash = false
		utilruntime.PanicHandlers = []func(interface{}){func(r interface{}) {
			crashMu.Lock()
			crashReports = append(crashReports, fmt.Sprint(r))
			crashStacks = append(crashStacks, string(debug.Stack()))
			crashMu.Unlock()
		}}
		fs := flag.NewFlagSet("klog", flag.ContinueOnError)
		klog.InitFlags(fs)
		fs.Set("logtostderr", "false")
		fs.Set("alsologtostderr", "false")
		fs.Set("stderrthreshold", "FATAL")
		klog.SetOutput(io.Discard)
		klog.LogToStderr(false)
	})
}

// RunSpec fully determines a run.
type RunSpec struct {
	Seed    uint64  `json:"seed"`
	Profile string  `json:"profile"`
	Config  *Config `json:"config,omitempty"`
	Steps   []Step  `json:"steps,omitempty"` // when set: replay exactly these (prefix included)
	// Truncate the generated schedule after this many chaos steps (0: no limit)
	NoQuiesce bool `json:"no_quiesce,omitempty"`
	// RefSteps, when set, is the fault-free reference schedule of a fault-sweep
	// run: both are executed and their final states compared (C09).
	RefSteps  []Step `json:"ref_steps,omitempty"`
	PureFault bool   `json:"pure_fault,omitempty"`
}

// Result is what a run reports.
type Result struct {
	Spec       RunSpec        `json:"spec"`
	Steps      []Step         `json:"steps"`
	Config     *Config        `json:"config"`
	Violations []Violation    `json:"violations"`
	Notes      []string       `json:"notes,omitempty"`
	Counters   map[string]int `json:"counters"`
	TraceHash  uint64         `json:"trace_hash"`
	Trace      []string       `json:"-"`
	States     []uint64       `json:"-"`
	Pairs      []uint64       `json:"-"`
	SimTime    time.Duration  `json:"sim_time"`
	Harness    string         `json:"harness_error,omitempty"`
	Nontrivial bool           `json:"nontrivial"`
	Final      []string       `json:"final,omitempty"`
	Dump       string         `json:"-"`
	Releases   []RelInfo      `json:"-"`
	Unpaused   []string       `json:"-"`
}

// RelInfo says which call a release step released (used by the fault sweep).
type RelInfo struct {
	Step  int
	Rec   int
	Write bool
	Desc  string
	Last  bool // the reconcile finished with this release
}

// RunOne executes spec inside a fresh bubble.
func RunOne(t *testing.T, spec RunSpec) (res *Result) {
	Pin()
	takeCrashReports()
	res = &Result{Spec: spec}
	func() {
		defer func() {
			// the controller constructor leaks goroutines (event broadcaster, delaying
			// queue); the end-of-bubble deadlock panic is expected here (DESIGN.md §2)
			if r := recover(); r != nil {
				msg := fmt.Sprint(r)
				if !strings.Contains(msg, "deadlock: main bubble goroutine has exited") {
					if res.Harness == "" {
						res.Harness = "panic outside run: " + msg
					}
				}
			}
		}()
		synctest.Test(t, func(t *testing.T) {
			runInBubble(spec, res)
		})
	}()
	return res
}

func runInBubble(spec RunSpec, res *Result) {
	var s *Sim
	defer func() {
		if r := recover(); r != nil {
			if he, ok := r.(HarnessError); ok {
				res.Harness = he.Msg
			} else {
				res.Harness = fmt.Sprintf("panic in driver: %v", r)
				if s != nil {
					res.Harness += "\n" + strings.Join(tail(s.Trace, 30), "\n")
				}
				res.Harness += "\n" + stack()
			}
		}
		if s != nil {
			res.Trace = s.Trace
			res.TraceHash = s.TraceHash()
		}
	}()
	start := time.Now()
	r := NewPRNG(mix(spec.Seed, hashStr(spec.Profile)))
	cfg := spec.Config
	prof := profiles[spec.Profile]
	if prof == nil {
		harnessf("unknown profile %q", spec.Profile)
	}
	if cfg == nil {
		cfg = GenConfig(r, spec.Profile)
		if prof.Tweak != nil {
			prof.Tweak(r, cfg)
		}
	}
	s = NewSim(spec.Seed, cfg)
	res.Config = cfg
	s.tracef("seed %d profile %s", spec.Seed, spec.Profile)
	var steps []Step
	if spec.Steps != nil {
		steps = spec.Steps
		for _, st := range steps {
			s.Apply(st)
		}
	} else {
		var prefix []Step
		if prof.Prefix != nil {
			prefix = prof.Prefix(r, cfg)
		} else {
			prefix = GenPrefix(r, cfg)
		}
		for _, st := range prefix {
			s.Apply(st)
			steps = append(steps, st)
		}
		for i := 0; i < cfg.Chaos; i++ {
			st := s.Gen(r)
			s.Apply(st)
			steps = append(steps, st)
		}
		if prof.Tail != nil {
			for _, st := range prof.Tail(r, s) {
				s.Apply(st)
				steps = append(steps, st)
			}
		}
	}
	res.Steps = steps
	if cfg.Quiesce && !spec.NoQuiesce {
		s.Quiesce()
	}
	s.endOfRun()
	res.Violations = s.Viol
	res.Notes = s.Notes
	res.Counters = s.Counters
	res.SimTime = time.Since(start)
	for h := range s.StateSet {
		res.States = append(res.States, h)
	}
	for h := range s.PairSet {
		res.Pairs = append(res.Pairs, h)
	}
	res.Nontrivial = s.Counters["writes.controller"] > 0
	res.Final = s.describeState()
	res.Dump = s.finalDump()
	res.Releases = s.Releases
	res.Unpaused = s.Unpaused
}

func tail(l []string, n int) []string {
	if len(l) > n {
		return l[len(l)-n:]
	}
	return l
}
