package sim

// End-of-run oracles: census at the fixed point (C12), converged ordinals (C01),
// the documented scale-in scenario (C03).

import (
	"fmt"
	"sort"
	"strings"

	v1 "k8s.io/api/core/v1"

	asv1 "github.com/pingcap/advanced-statefulset/client/apis/apps/v1"
)

func (o *oracleState) noteScaleIn(s *Sim, set *asv1.StatefulSet, k int32) {
	if !s.Cfg.ScaleInWatch {
		return
	}
	o.scaleIn[set.Name] = &scaleInWatch{slot: k, uid: string(set.UID), deleted: map[string]bool{}, clean: true, fromSeq: s.seq}
}

func (o *oracleState) noteUserEdit(s *Sim, kind, set string) {
	if w := o.scaleIn[set]; w != nil && kind != "scalein" {
		w.clean = false
	}
}

// atFixedPoint runs once the quiesce phase has reached the C02 fixed point.
func (o *oracleState) atFixedPoint(s *Sim) {
	for _, ky := range s.Store.Keys(KSet) {
		set := s.Store.tables[KSet][ky].(*asv1.StatefulSet)
		if set.DeletionTimestamp != nil || set.Annotations[annPaused] == "true" {
			continue
		}
		if _, err := setSelector(set); err != nil {
			continue
		}
		var total, ready, cur, upd int32
		live := map[int32]bool{}
		for _, pk := range s.Store.Keys(KPod) {
			p := s.Store.tables[KPod][pk].(*v1.Pod)
			ref := controllerOf(p)
			parent, ord, ok := podOrdinal(p.Name)
			if ref == nil || ref.UID != set.UID || !ok || parent != set.Name {
				continue
			}
			live[ord] = true
			total++
			if podRunningReady(p) {
				ready++
			}
			if podRevision(p) == set.Status.CurrentRevision {
				cur++
			}
			if podRevision(p) == set.Status.UpdateRevision {
				upd++
			}
		}
		st := set.Status
		if st.Replicas != total || st.ReadyReplicas != ready || st.CurrentReplicas != cur || st.UpdatedReplicas != upd {
			which := "replicas"
			switch {
			case st.ReadyReplicas != ready:
				which = "readyReplicas"
			case st.CurrentReplicas != cur:
				which = "currentReplicas"
			case st.UpdatedReplicas != upd:
				which = "updatedReplicas"
			}
			s.violate("C12", "C12.census", which, fmt.Sprintf("fixed point of %s: status replicas/ready/current/updated = %d/%d/%d/%d, census = %d/%d/%d/%d", set.Name, st.Replicas, st.ReadyReplicas, st.CurrentReplicas, st.UpdatedReplicas, total, ready, cur, upd))
		}
		// C01 controller half: the live pods are exactly the model's desired ordinals
		D := setDesired(set)
		if fmt.Sprint(sortedOrdinals(D)) != fmt.Sprint(sortedOrdinals(live)) {
			s.violate("C01", "C01.converged-ordinals", slotClass(set.Annotations, specReplicas(set)), fmt.Sprintf("fixed point of %s: live ordinals %v, model %v (replicas=%d slots=%q)", set.Name, sortedOrdinals(live), sortedOrdinals(D), specReplicas(set), set.Annotations[annSlots]))
		}
	}
	s.checkMigrationEnd()
	// C03: scale-in at slot k removed pod k and nothing else
	for _, name := range sortedKeys(o.scaleIn) {
		w := o.scaleIn[name]
		if !w.clean {
			continue
		}
		got := map[string]bool{}
		for _, c := range s.Calls {
			if c.Seq > w.fromSeq && c.Kind == KPod && c.Verb == "delete" && strings.HasPrefix(c.Actor, "w") && strings.HasPrefix(c.Name, name+"-") {
				got[c.Name] = true
			}
		}
		want := fmt.Sprintf("%s-%d", name, w.slot)
		var extra []string
		for n := range got {
			if n != want {
				extra = append(extra, n)
			}
		}
		sort.Strings(extra)
		s.count("probe.scale_in_scenario_checked")
		if len(extra) > 0 {
			s.violate("C03", "C03.slot-scale-in-extra", "extra", fmt.Sprintf("scale-in of %s at slot %d also deleted %v", name, w.slot, extra))
		} else if !got[want] {
			s.violate("C03", "C03.slot-scale-in-extra", "missing", fmt.Sprintf("scale-in of %s at slot %d never deleted %s", name, w.slot, want))
		}
	}
}

func (s *Sim) endOfRun() {
	// procedures must not have panicked (harness errors are re-raised)
	for _, p := range s.procs {
		if p.panicVal != nil {
			if he, ok := p.panicVal.(HarnessError); ok {
				panic(he)
			}
		}
	}
	for k, n := range s.Counters {
		_ = k
		_ = n
	}
}
