package sim

// watchsim: the hijack client's relaying watch under a driver that performs one
// external action at a time with synctest quiescence in between (DESIGN.md §5
// C20). The bubble contains only the real relay goroutine, a simulator-owned
// source, and helper goroutines for the consumer and the stoppers, so the
// end-of-bubble deadlock report is the goroutine-leak detector.

import (
	"context"
	"encoding/json"
	"fmt"
	goruntime "runtime"
	"strings"
	"sync"
	"testing"
	"testing/synctest"
	"time"

	appsv1 "k8s.io/api/apps/v1"
	metav1 "k8s.io/apimachinery/pkg/apis/meta/v1"
	"k8s.io/apimachinery/pkg/runtime"
	"k8s.io/apimachinery/pkg/watch"

	asv1 "github.com/pingcap/advanced-statefulset/client/apis/apps/v1"
	"github.com/pingcap/advanced-statefulset/client/apis/apps/v1/helper"
)

// simSource is the underlying watch the relay reads from.
type simSource struct {
	ch       chan watch.Event
	in       chan watch.Event // offers queued by the driver
	closeReq chan struct{}
	stopped  int
	mu       sync.Mutex
	accepted []watch.Event
	closed   bool
}

func (s *simSource) ResultChan() <-chan watch.Event { return s.ch }
func (s *simSource) Stop() {
	s.mu.Lock()
	s.stopped++
	s.mu.Unlock()
	// give concurrently released stoppers a chance to overlap (which goroutine
	// proceeds inside the code under test is not the driver's decision here)
	for i := 0; i < 4; i++ {
		goruntime.Gosched()
	}
}

func (s *simSource) feeder() {
	defer func() { close(s.ch); s.closed = true }()
	for {
		select {
		case ev := <-s.in:
			select {
			case s.ch <- ev:
				s.accepted = append(s.accepted, ev)
			case <-s.closeReq:
				return
			}
		case <-s.closeReq:
			return
		}
	}
}

func watchPayload(r *PRNG, i int) runtime.Object {
	s := &asv1.StatefulSet{}
	s.TypeMeta = metav1.TypeMeta{APIVersion: crdAPIVersion, Kind: crdKind}
	s.Namespace = NS
	s.Name = fmt.Sprintf("set%d", r.Intn(3))
	s.ResourceVersion = fmt.Sprint(100 + i)
	s.Spec.Replicas = int32p(int32(r.Intn(5)))
	s.Spec.ServiceName = "svc"
	s.Spec.Selector = &metav1.LabelSelector{MatchLabels: map[string]string{"app": s.Name}}
	s.Spec.Template = Template(map[string]string{"app": s.Name}, r.Intn(8))
	if r.Chance(0.5) {
		s.Annotations = map[string]string{annSlots: slotChoices[r.Intn(len(slotChoices))]}
	}
	s.Status.Replicas = int32(r.Intn(5))
	return s
}

// refConvert is the reference conversion to the built-in type (JSON round trip).
func refConvert(o *asv1.StatefulSet) *appsv1.StatefulSet {
	b, err := json.Marshal(o)
	if err != nil {
		panic(err)
	}
	out := &appsv1.StatefulSet{}
	if err := json.Unmarshal(b, out); err != nil {
		panic(err)
	}
	out.APIVersion = "apps/v1"
	return out
}

// GenWatchSteps draws an action sequence.
func GenWatchSteps(r *PRNG) ([]Step, int) {
	n := r.Range(3, 16)
	buf := []int{0, 0, 1, 100}[r.Intn(4)]
	var out []Step
	events := 0
	for i := 0; i < n; i++ {
		switch x := r.Intn(100); {
		case x < 40 && events < 6:
			typ := r.Intn(5) // Added Modified Deleted Bookmark Error
			if r.Chance(0.75) {
				typ = r.Intn(4)
			}
			out = append(out, Step{K: "offer", A: typ, B: events})
			events++
		case x < 75:
			out = append(out, Step{K: "recv"})
		case x < 85:
			out = append(out, Step{K: "stop", A: r.Intn(3)})
		case x < 92:
			out = append(out, Step{K: "srcclose"})
		default:
			out = append(out, Step{K: "wait", A: r.Intn(1000)})
		}
	}
	return out, buf
}

var watchTypes = []watch.EventType{watch.Added, watch.Modified, watch.Deleted, watch.Bookmark, watch.Error}

// RunWatch executes one watch scenario in a fresh bubble.
func RunWatch(t *testing.T, spec RunSpec) (res *Result) {
	Pin()
	res = &Result{Spec: spec, Counters: map[string]int{}}
	crashMu.Lock()
	crashReports = nil
	crashMu.Unlock()
	leaked := false
	func() {
		defer func() {
			if r := recover(); r != nil {
				msg := fmt.Sprint(r)
				if strings.Contains(msg, "deadlock: main bubble goroutine has exited") {
					leaked = true
				} else if res.Harness == "" {
					res.Harness = "panic outside run: " + msg
				}
			}
		}()
		synctest.Test(t, func(t *testing.T) { watchBubble(spec, res) })
	}()
	if leaked && res.Harness == "" {
		res.Violations = append(res.Violations, Violation{Prop: "C20", Check: "C20.leak", Disc: res.Final[0], Detail: "goroutines are left blocked after the watch ended (" + res.Final[0] + "); bubble reported: blocked goroutines remain"})
		res.Trace = append(res.Trace, "VIOLATION C20.leak "+res.Final[0])
	}
	res.TraceHash = hashStr(strings.Join(res.Trace, "\n"))
	return res
}

func watchBubble(spec RunSpec, res *Result) {
	defer func() {
		if r := recover(); r != nil {
			if he, ok := r.(HarnessError); ok {
				res.Harness = he.Msg
			} else {
				res.Harness = fmt.Sprintf("panic in watch driver: %v\n%s", r, stack())
			}
		}
	}()
	r := NewPRNG(mix(spec.Seed, 0x20))
	cfg := spec.Config
	steps := spec.Steps
	if cfg == nil {
		cfg = &Config{Profile: "watch"}
		var buf int
		steps, buf = GenWatchSteps(r)
		cfg.Chaos = buf // source buffer size
		cfg.LateResultChan = r.Chance(0.4)
	}
	res.Config = cfg
	res.Steps = steps
	trace := func(f string, a ...any) { res.Trace = append(res.Trace, fmt.Sprintf(f, a...)) }
	viol := func(check, disc, detail string) {
		for _, v := range res.Violations {
			if v.Check == check && v.Disc == disc {
				return
			}
		}
		res.Violations = append(res.Violations, Violation{Prop: "C20", Check: check, Disc: disc, Detail: detail})
		trace("VIOLATION %s %s %s", check, disc, detail)
	}
	payloadRng := NewPRNG(mix(spec.Seed, 0x21))

	sim := NewSim(spec.Seed, &Config{})
	src := &simSource{ch: make(chan watch.Event, cfg.Chaos), in: make(chan watch.Event, 64), closeReq: make(chan struct{})}
	sim.WatchSource = func() watch.Interface { return src }
	go src.feeder()
	hc := helper.NewHijackClient(sim.kube, sim.as)
	w, err := hc.AppsV1().StatefulSets(NS).Watch(context.TODO(), metav1.ListOptions{})
	if err != nil {
		harnessf("watch: %v", err)
	}
	// a consumer may fetch the result channel once at the start or only when it
	// first reads (possibly after another goroutine of it has called Stop)
	var rcOnce <-chan watch.Event
	getRC := func() <-chan watch.Event {
		if rcOnce == nil {
			rcOnce = w.ResultChan()
		}
		return rcOnce
	}
	if !cfg.LateResultChan {
		getRC()
	} else {
		res.Counters["probe.late_result_chan"]++
	}

	// consumer
	type got struct {
		ev watch.Event
		ok bool
	}
	var received []got
	tokens := make(chan struct{}, 64)
	quit := make(chan struct{})
	consumerDone := make(chan struct{})
	sawClosed := false
	go func() {
		defer close(consumerDone)
		for {
			select {
			case <-tokens:
			case <-quit:
				return
			}
			select {
			case ev, ok := <-getRC():
				received = append(received, got{ev, ok})
				if !ok {
					sawClosed = true
				}
			case <-quit:
				return
			}
		}
	}()
	var offered []watch.Event
	consumerStopped := false
	srcClosed := false
	stoppers := 0
	synctest.Wait()
	for i, st := range steps {
		trace("step %d: %s", i+1, st)
		res.Counters["step."+st.K]++
		switch st.K {
		case "offer":
			typ := watchTypes[abs(st.A)%len(watchTypes)]
			var obj runtime.Object
			if typ == watch.Error {
				obj = &metav1.Status{Status: metav1.StatusFailure, Reason: metav1.StatusReasonExpired, Code: 410, Message: "too old resource version"}
				res.Counters["probe.error_event"]++
			} else {
				obj = watchPayload(payloadRng, len(offered))
			}
			ev := watch.Event{Type: typ, Object: obj}
			offered = append(offered, ev)
			if !srcClosed {
				src.in <- ev
			}
		case "recv":
			tokens <- struct{}{}
		case "stop":
			n := 1 + abs(st.A)%3
			if n == 3 {
				n = 2
				res.Counters["probe.concurrent_stop"]++
			}
			for k := 0; k < n; k++ {
				stoppers++
				go func() {
					defer func() {
						if r := recover(); r != nil {
							crashMu.Lock()
							crashReports = append(crashReports, fmt.Sprintf("Stop: %v", r))
							crashMu.Unlock()
						}
					}()
					w.Stop()
				}()
			}
			consumerStopped = true
			res.Counters["probe.stop"]++
		case "srcclose":
			if !srcClosed {
				srcClosed = true
				close(src.closeReq)
				res.Counters["probe.source_close"]++
			}
		case "wait":
			time.Sleep(time.Duration(abs(st.A)+1) * time.Millisecond)
		default:
			harnessf("unknown watch step %q", st.K)
		}
		synctest.Wait()
	}
	// ---- while neither Stop nor source end has happened, a consumer that keeps
	// receiving gets every accepted event
	if !consumerStopped && !srcClosed {
		for k := 0; k < 12; k++ {
			tokens <- struct{}{}
			synctest.Wait()
		}
		nrecv := 0
		for _, g := range received {
			if g.ok {
				nrecv++
			}
		}
		crashMu.Lock()
		panicked := len(crashReports) > 0
		crashMu.Unlock()
		if nrecv < len(src.accepted) && !panicked {
			viol("C20.sequence", "lost", fmt.Sprintf("source delivered %d events, a consumer that keeps receiving got %d", len(src.accepted), nrecv))
		}
	}
	// ---- shutdown: the consumer stops the watch (if it has not), the source
	// ends; a consumer that never called Stop keeps draining
	if !consumerStopped && !srcClosed {
		stoppers++
		go w.Stop()
		consumerStopped = true
		synctest.Wait()
	}
	drain := !consumerStopped
	if !srcClosed {
		srcClosed = true
		close(src.closeReq)
		synctest.Wait()
	}
	if drain {
		for k := 0; k < 12 && !sawClosed; k++ {
			tokens <- struct{}{}
			synctest.Wait()
		}
	}
	time.Sleep(time.Second)
	synctest.Wait()
	// ---- oracles
	crashMu.Lock()
	reports := append([]string{}, crashReports...)
	crashMu.Unlock()
	if len(reports) > 0 {
		viol("C20.panic", reports[0], fmt.Sprintf("the relay goroutine panicked: %s (HandleCrash would terminate the process)", reports[0]))
	}
	// relayed sequence = prefix of the source's accepted sequence
	k := 0
	for _, g := range received {
		if !g.ok {
			continue
		}
		if k >= len(src.accepted) {
			viol("C20.sequence", "extra", "the consumer received more events than the source delivered")
			break
		}
		want := src.accepted[k]
		k++
		if g.ev.Type != want.Type {
			viol("C20.sequence", "type", fmt.Sprintf("event %d relayed with type %s, source sent %s", k, g.ev.Type, want.Type))
			continue
		}
		switch o := want.Object.(type) {
		case *asv1.StatefulSet:
			b, ok := g.ev.Object.(*appsv1.StatefulSet)
			if !ok {
				viol("C20.sequence", "object-type", fmt.Sprintf("event %d relayed with object %T", k, g.ev.Object))
			} else if canonJSON(b) != canonJSON(refConvert(o)) {
				viol("C20.sequence", "object", fmt.Sprintf("event %d: relayed object differs from the built-in equivalent of the source object", k))
			}
		default:
			if canonJSON(g.ev.Object) != canonJSON(want.Object) {
				viol("C20.sequence", "payload", fmt.Sprintf("event %d: non-StatefulSet payload was not relayed as it is", k))
			}
		}
	}
	// result channel closed? In stop mode the consumer owes no further reads, so
	// one probing read decides: closed (fine), an event (the relay was still
	// parked on its send after Stop, source end and a second of virtual time: it
	// would have stayed there for ever), or nothing (neither closed nor sending).
	closedNow := sawClosed
	stuckSend := false
	if !closedNow {
		probe := make(chan bool, 1)
		prc := getRC()
		go func() {
			select {
			case _, ok := <-prc:
				probe <- ok
			case <-quit:
			}
		}()
		synctest.Wait()
		select {
		case ok := <-probe:
			if ok {
				stuckSend = true
			} else {
				closedNow = true
			}
		default:
		}
	}
	how := "stop"
	if drain {
		how = "source-end"
	}
	if stuckSend {
		viol("C20.leak", how, "after "+how+" the relay goroutine is still blocked sending an event nobody has to read: it never exits and the result channel is never closed")
	} else if !closedNow {
		viol("C20.not-closed", how, "after "+how+" the result channel is not closed")
	}
	if src.stopped == 0 && (consumerStopped) {
		viol("C20.not-closed", "source-not-stopped", "Stop was not propagated to the underlying watch")
	}
	res.Final = []string{how}
	res.Counters["events.offered"] += len(offered)
	res.Counters["events.accepted"] += len(src.accepted)
	res.Counters["events.received"] += k
	res.Counters["writes.controller"] = 1
	res.Nontrivial = true
	close(quit)
	<-consumerDone
	synctest.Wait()
}
