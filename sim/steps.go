package sim

// Steps: the alphabet of driver actions (DESIGN.md §3.6). A step that is not
// applicable in the current state is a counted no-op, so every subsequence of a
// schedule is a schedule.

import (
	"context"
	"fmt"
	"sort"
	"time"

	appsv1 "k8s.io/api/apps/v1"
	v1 "k8s.io/api/core/v1"
	apierrors "k8s.io/apimachinery/pkg/api/errors"
	metav1 "k8s.io/apimachinery/pkg/apis/meta/v1"
	"k8s.io/apimachinery/pkg/runtime"
	"k8s.io/apimachinery/pkg/types"
	"k8s.io/apimachinery/pkg/util/sets"

	asv1 "github.com/pingcap/advanced-statefulset/client/apis/apps/v1"
	"github.com/pingcap/advanced-statefulset/client/apis/apps/v1/helper"
)

// Step is one driver action.
type Step struct {
	K string `json:"k"`
	A int    `json:"a,omitempty"`
	B int    `json:"b,omitempty"`
	C int    `json:"c,omitempty"`
	D int    `json:"d,omitempty"`
	S string `json:"s,omitempty"`
}

func (st Step) String() string {
	s := fmt.Sprintf("%s %d %d %d %d", st.K, st.A, st.B, st.C, st.D)
	if st.S != "" {
		s += " " + st.S
	}
	return s
}

// Fault codes carried by release steps.
const (
	FNone = iota
	FBefore500
	FBeforeTimeout
	FBefore429
	FAfter500
	FAfterTimeout
	FRace
	FRace2
	_
	_
	FLieConflict
	FLieNotFound
	FLieExists
	FLieInvalid
)

var faultNames = map[int]string{FNone: "", FBefore500: "before.500", FBeforeTimeout: "before.timeout", FBefore429: "before.429",
	FAfter500: "after.500", FAfterTimeout: "after.timeout", FRace: "race", FRace2: "race2",
	FLieConflict: "lie.conflict", FLieNotFound: "lie.notfound", FLieExists: "lie.exists", FLieInvalid: "lie.invalid"}

func (s *Sim) setCfg(i int) *SetCfg {
	if len(s.Cfg.Sets) == 0 {
		return nil
	}
	if i < 0 {
		i = -i
	}
	return &s.Cfg.Sets[i%len(s.Cfg.Sets)]
}

func (s *Sim) getSet(i int) (*asv1.StatefulSet, *SetCfg) {
	c := s.setCfg(i)
	if c == nil {
		return nil, nil
	}
	o, ok := Peek[*asv1.StatefulSet](s.Store, KSet, NS, c.Name)
	if !ok {
		return nil, c
	}
	return o, c
}

func (s *Sim) podByIndex(i int) *v1.Pod {
	keys := s.Store.Keys(KPod)
	if len(keys) == 0 {
		return nil
	}
	if i < 0 {
		i = -i
	}
	return s.Store.tables[KPod][keys[i%len(keys)]].(*v1.Pod)
}

func noop(s *Sim, st Step) bool {
	s.count("step.noop")
	return false
}

// Apply executes one step. It returns false when the step was a no-op.
func (s *Sim) Apply(st Step) bool {
	s.stepNo++
	s.tracef("step %d: %s", s.stepNo, st)
	s.count("step." + st.K)
	ok := s.apply(st)
	if !ok {
		s.count("step.noop")
	}
	s.afterStep(st)
	return ok
}

func (s *Sim) apply(st Step) bool {
	switch st.K {
	case "boot":
		if s.inc != nil {
			return false
		}
		s.newIncarnation()
		return true
	case "worker":
		return s.StartWorker() != nil
	case "release":
		return s.stepRelease(st)
	case "advance":
		s.Advance(time.Duration(st.A) * time.Millisecond)
		return true
	case "crash":
		if s.inc == nil {
			return false
		}
		mode := st.A
		s.CrashRestart(func(a *actor) bool { return mode%2 == 1 })
		return true
	case "deliver":
		return s.Deliver(cacheKinds[abs(st.A)%len(cacheKinds)])
	case "deliverb":
		// A=kind, B=batch size: the cache runs ahead of the handler notifications
		return s.DeliverBatch(cacheKinds[abs(st.A)%len(cacheKinds)], 2+abs(st.B)%3)
	case "deliverall":
		any := false
		for _, k := range cacheKinds {
			for s.Deliver(k) {
				any = true
			}
		}
		return any
	case "relist":
		if s.inc == nil {
			return false
		}
		s.Relist(cacheKinds[abs(st.A)%len(cacheKinds)])
		return true
	case "resync":
		if s.inc == nil {
			return false
		}
		s.Resync(cacheKinds[abs(st.A)%len(cacheKinds)])
		return true
	case "mkset":
		return s.stepMkSet(st)
	case "delset":
		return s.stepDelSet(st)
	case "replicas", "slots", "slotadd", "scalein", "scaleout", "template", "partition", "strategy", "pause", "touch", "histlimit", "policy", "claimtmpl":
		return s.stepEditSet(st)
	case "resubmit":
		return s.stepResubmit(st)
	case "mkpod":
		return s.stepMkPod(st)
	case "mkrev":
		return s.stepMkRev(st)
	case "podrm", "podlabel", "podorphan", "podown":
		return s.stepPodEdit(st)
	case "pvcterm":
		return s.stepPVCTerm(st)
	case "pvcgap":
		return s.stepPVCGap(st)
	case "kube":
		return s.stepKubelet(st)
	case "gc":
		return s.stepGC()
	case "prel":
		return s.stepProcRelease(st)
	case "upgrade":
		return s.stepUpgrade(st)
	case "mkbset":
		return s.stepMkBuiltin(st)
	case "bctl":
		return s.stepBuiltinController(st)
	case "listerfault":
		return s.stepListerFault(st)
	case "settle":
		if st.A == 2 {
			// kubelet and caches only: pods progress, events are delivered, no worker runs
			stuck := map[string]int{}
			for round := 0; round < 10; round++ {
				ch := s.kubeletSettle(round, stuck)
				for _, k := range cacheKinds {
					for s.Deliver(k) {
						ch = true
					}
				}
				if !ch {
					break
				}
			}
			return true
		}
		return s.stepSettle(st.A == 1)
	case "mktwin":
		return s.stepMkTwin(st)
	case "finish":
		return s.stepFinish()
	case "relto":
		return s.stepReleaseTo(st)
	case "podnoid":
		// somebody strips the pod-name label of a pod (the controller repairs the
		// identity with an update)
		p := s.podByIndex(st.A)
		if st.S != "" {
			p, _ = Peek[*v1.Pod](s.Store, KPod, NS, st.S)
		}
		if p == nil || p.Labels[lblPodName] == "" {
			return false
		}
		s.count("user.podnoid")
		return Mutate(s.Store, KPod, p.Namespace, p.Name, func(o *v1.Pod) bool { delete(o.Labels, lblPodName); return true })
	}
	harnessf("unknown step kind %q", st.K)
	return false
}

var cacheKinds = []Kind{KPod, KSet, KPVC}

func abs(i int) int {
	if i < 0 {
		return -i
	}
	return i
}

// ---- controller steps ----------------------------------------------------------

func (s *Sim) stepRelease(st Step) bool {
	ws := s.ParkedWorkers()
	if len(ws) == 0 {
		return false
	}
	w := ws[abs(st.A)%len(ws)]
	code := st.B
	if s.quiet {
		code = FNone
	}
	info := RelInfo{Step: s.stepNo, Write: w.pending.IsWrite(), Desc: w.pending.Verb + " " + w.pending.Kind.String() + " " + w.pending.Name}
	if w.rec != nil {
		info.Rec = w.rec.ID
	}
	s.releaseWith(w, code, st.C)
	info.Last = w.done
	s.Releases = append(s.Releases, info)
	return true
}

// relto: A=parked worker, B=target. Releases the worker's calls without faults
// until the call it is parked on is of the target kind (1 update pods, 2 status
// write, 3 create pods, 4 delete pods, 5 delete controllerrevisions) or the reconcile ends. A primitive for
// scenario tails: "stop right before the write that ...".
func (s *Sim) stepReleaseTo(st Step) bool {
	ws := s.ParkedWorkers()
	if len(ws) == 0 {
		return false
	}
	w := ws[abs(st.A)%len(ws)]
	at := func(c *APICall) bool {
		switch abs(st.B) {
		case 1:
			return c.Kind == KPod && c.Verb == "update"
		case 2:
			return c.Kind == KSet && c.Sub == "status"
		case 3:
			return c.Kind == KPod && c.Verb == "create"
		case 4:
			return c.Kind == KPod && c.Verb == "delete"
		case 5:
			return c.Kind == KRev && c.Verb == "delete"
		}
		return false
	}
	for i := 0; i < 200 && !w.done && w.pending != nil && !at(w.pending); i++ {
		s.releaseWith(w, FNone, 0)
	}
	return true
}

// stepFinish runs every in-flight reconcile to completion without faults and
// without starting new ones.
func (s *Sim) stepFinish() bool {
	any := false
	for i := 0; i < 10000; i++ {
		ws := s.ParkedWorkers()
		if len(ws) == 0 {
			return any
		}
		s.releaseWith(ws[0], FNone, 0)
		any = true
	}
	harnessf("finish: workers never complete")
	return any
}

// releaseWith releases the pending call of a with fault code; claim creates of
// one CreateStatefulPod are released as a group (map iteration order in the
// code under test must not influence the schedule, DESIGN.md §3.7).
func (s *Sim) releaseWith(a *actor, code int, arg int) {
	c := a.pending
	group := c.Kind == KPVC && c.Verb == "create"
	startTrace := len(s.Trace)
	startPending := len(s.Store.pending[KPVC])
	// within a claim group the fault is keyed by the identity of the claim (its
	// template index), never by the order in which the code under test happens to
	// walk its map: arg%4 == 0 hits every claim of the group, otherwise only the
	// claims of template (arg%4 - 1)
	pick := func(call *APICall) int {
		if !group || arg%4 == 0 {
			return code
		}
		want := fmt.Sprintf("vol%d-", arg%4-1)
		if len(call.Name) >= len(want) && call.Name[:len(want)] == want {
			return code
		}
		return FNone
	}
	s.release(a, s.decide(a, c, pick(c), arg))
	if !group {
		return
	}
	n := 1
	for !a.done && a.pending != nil && a.pending.Kind == KPVC && a.pending.Verb == "create" {
		s.release(a, s.decide(a, a.pending, pick(a.pending), arg))
		n++
	}
	if n > 1 {
		s.canonClaimGroup(startTrace, startPending)
	}
}

// canonClaimGroup makes the effects of a group of claim creates independent of
// the order in which the code under test issued them.
func (s *Sim) canonClaimGroup(traceFrom, pendingFrom int) {
	// trace lines of the group: sort the "  api" lines among themselves
	if !s.NoTrace {
		var idx []int
		var lines []string
		for i := traceFrom; i < len(s.Trace); i++ {
			if len(s.Trace[i]) > 5 && s.Trace[i][:5] == "  api" && containsStr(s.Trace[i], " create persistentvolumeclaims ") {
				idx = append(idx, i)
				lines = append(lines, s.Trace[i])
			}
		}
		sort.Strings(lines)
		for j, i := range idx {
			s.Trace[i] = lines[j]
		}
	}
	evs := s.Store.pending[KPVC]
	if pendingFrom > len(evs) {
		return
	}
	tail := evs[pendingFrom:]
	if len(tail) < 2 {
		return
	}
	rvs := make([]string, len(tail))
	for i, e := range tail {
		rvs[i] = e.Obj.GetResourceVersion()
	}
	sort.Slice(tail, func(i, j int) bool { return tail[i].Obj.GetName() < tail[j].Obj.GetName() })
	sort.Slice(rvs, func(i, j int) bool {
		return len(rvs[i]) < len(rvs[j]) || (len(rvs[i]) == len(rvs[j]) && rvs[i] < rvs[j])
	})
	for i := range tail {
		tail[i].Obj.SetResourceVersion(rvs[i])
		ky := key(tail[i].Obj.GetNamespace(), tail[i].Obj.GetName())
		if o, ok := s.Store.tables[KPVC][ky]; ok {
			o.SetResourceVersion(rvs[i])
			// creation stamps follow the same order
		}
	}
	// creation timestamps: reassign in name order too
	var stamps []metav1.Time
	for _, e := range tail {
		stamps = append(stamps, e.Obj.GetCreationTimestamp())
	}
	sort.Slice(stamps, func(i, j int) bool { return stamps[i].Before(&stamps[j]) })
	for i := range tail {
		tail[i].Obj.SetCreationTimestamp(stamps[i])
		ky := key(tail[i].Obj.GetNamespace(), tail[i].Obj.GetName())
		if o, ok := s.Store.tables[KPVC][ky]; ok {
			o.SetCreationTimestamp(stamps[i])
		}
	}
}

func containsStr(s, sub string) bool {
	for i := 0; i+len(sub) <= len(s); i++ {
		if s[i:i+len(sub)] == sub {
			return true
		}
	}
	return false
}

// decide turns a fault code into a Decision for call c.
func (s *Sim) decide(a *actor, c *APICall, code int, arg int) Decision {
	if s.Cfg.StatusOutage && !s.quiet && c.Kind == KSet && c.Sub == "status" && c.IsWrite() {
		// a long outage of the status endpoint (ends with the chaos phase)
		return Decision{Kind: DecFailBefore, Err: apierrors.NewServiceUnavailable("injected outage"), Label: "outage.status"}
	}
	if code == FNone || s.Cfg.Dialect == "none" || s.quiet {
		return Decision{}
	}
	if s.Cfg.Dialect != "lying" && code >= FLieConflict {
		return Decision{}
	}
	gr := kindGR[c.Kind]
	name := c.Name
	lbl := faultNames[code]
	switch code {
	case FBefore500:
		return Decision{Kind: DecFailBefore, Err: apierrors.NewInternalError(fmt.Errorf("injected")), Label: lbl}
	case FBeforeTimeout:
		return Decision{Kind: DecFailBefore, Err: apierrors.NewServerTimeout(gr, c.Verb, 1), Label: lbl}
	case FBefore429:
		return Decision{Kind: DecFailBefore, Err: apierrors.NewTooManyRequests("injected", 1), Label: lbl}
	case FAfter500:
		if !c.IsWrite() {
			return Decision{Kind: DecFailBefore, Err: apierrors.NewInternalError(fmt.Errorf("injected")), Label: "before.500"}
		}
		return Decision{Kind: DecFailAfter, Err: apierrors.NewInternalError(fmt.Errorf("injected after apply")), Label: lbl}
	case FAfterTimeout:
		if !c.IsWrite() {
			return Decision{Kind: DecFailBefore, Err: apierrors.NewServerTimeout(gr, c.Verb, 1), Label: "before.timeout"}
		}
		return Decision{Kind: DecFailAfter, Err: apierrors.NewTimeoutError("injected after apply", 1), Label: lbl}
	case FRace, FRace2:
		if r, l := s.raceFor(c, code == FRace2, arg); r != nil {
			return Decision{Race: r, Label: l}
		}
		return Decision{}
	case FLieConflict:
		return Decision{Kind: DecFailBefore, Err: apierrors.NewConflict(gr, name, fmt.Errorf("forged")), Label: lbl}
	case FLieNotFound:
		return Decision{Kind: DecFailBefore, Err: apierrors.NewNotFound(gr, name), Label: lbl}
	case FLieExists:
		return Decision{Kind: DecFailBefore, Err: apierrors.NewAlreadyExists(gr, name), Label: lbl}
	case FLieInvalid:
		return Decision{Kind: DecFailBefore, Err: apierrors.NewInvalid(kindGK[c.Kind], name, nil), Label: lbl}
	}
	return Decision{}
}

// raceFor returns a racing mutation that makes the store itself answer
// NotFound / AlreadyExists / Conflict for call c (truthful dialect).
func (s *Sim) raceFor(c *APICall, alt bool, arg int) (func(), string) {
	st := s.Store
	switch c.Verb {
	case "create":
		switch c.Kind {
		case KPod:
			// someone else creates a pod of that name first (foreign, no labels)
			return func() {
				if _, ok := st.tables[KPod][key(c.NS, c.Name)]; ok {
					return
				}
				p := &v1.Pod{}
				p.Name = c.Name
				p.Labels = map[string]string{"squatter": "true"}
				p.Spec.Containers = []v1.Container{{Name: "x", Image: "x"}}
				if _, err := stCreate(st, KPod, c.NS, p); err == nil {
					s.count("user.squatter")
				}
			}, "race.exists"
		case KPVC:
			return func() {
				if _, ok := st.tables[KPVC][key(c.NS, c.Name)]; ok {
					return
				}
				in := c.In.(*v1.PersistentVolumeClaim)
				p := in.DeepCopy()
				p.Labels = map[string]string{"made-by": "someone-else"}
				stCreate(st, KPVC, c.NS, p)
			}, "race.exists"
		case KSet:
			// somebody creates the Advanced StatefulSet first
			return func() {
				if _, ok := st.tables[KSet][key(c.NS, c.Name)]; ok {
					return
				}
				in := c.In.(*asv1.StatefulSet).DeepCopy()
				in.ResourceVersion = ""
				if alt {
					in.Spec.Replicas = int32p(9)
				}
				stCreate(st, KSet, c.NS, in)
			}, "race.exists"
		case KRev:
			// another revision object occupies the name: with equal data (alt) or
			// with different data (a real hash collision)
			return func() {
				if _, ok := st.tables[KRev][key(c.NS, c.Name)]; ok {
					return
				}
				in := c.In.(*appsv1.ControllerRevision)
				r := in.DeepCopy()
				if !alt {
					r.Data = runtime.RawExtension{Raw: []byte(`{"spec":{"template":{"$patch":"replace","metadata":{"labels":{"collide":"yes"}},"spec":{"containers":[{"name":"other","image":"other"}]}}}}`)}
					r.OwnerReferences = nil
					r.Labels = map[string]string{"collide": "yes"}
				}
				stCreate(st, KRev, c.NS, r)
				s.count("probe.revision_name_collision")
			}, "race.exists"
		}
	case "update":
		if alt {
			return func() { st.Remove(c.Kind, c.NS, c.Name) }, "race.notfound"
		}
		if c.Kind == KRev && arg >= 2 {
			// the writer that wins the race is another controller adopting the revision
			// (a set with an overlapping selector, the built-in controller re-adopting)
			return func() {
				Mutate(st, KRev, c.NS, c.Name, func(o *appsv1.ControllerRevision) bool {
					if controllerOf(o) != nil {
						touchAnn(o)
						return true
					}
					o.OwnerReferences = append(o.OwnerReferences, ownerRefFor(crdAPIVersion, crdKind, "rival", types.UID("rival-uid")))
					return true
				})
			}, "race.adopted"
		}
		return func() { s.bumpRV(c.Kind, c.NS, c.Name) }, "race.conflict"
	case "delete", "patch":
		if c.Kind == KPod && c.Verb == "patch" && alt && arg%2 == 1 {
			// the pod was deleted and another pod created under its name since the
			// controller's cache saw it: same name, other UID, nothing of this set's
			return func() {
				st.Remove(KPod, c.NS, c.Name)
				p := &v1.Pod{}
				p.Name = c.Name
				p.Labels = map[string]string{"squatter": "true"}
				p.Spec.Containers = []v1.Container{{Name: "x", Image: "x"}}
				stCreate(st, KPod, c.NS, p)
			}, "race.replaced"
		}
		return func() { st.Remove(c.Kind, c.NS, c.Name) }, "race.notfound"
	case "get":
		if c.Kind == KSet {
			return nil, "" // removing the set is a user step, not a race
		}
		return func() { st.Remove(c.Kind, c.NS, c.Name) }, "race.notfound"
	}
	return nil, ""
}

// bumpRV makes the stored object newer without a semantic change the
// controller cares about (an annotation written by someone else).
func (s *Sim) bumpRV(k Kind, ns, name string) {
	switch k {
	case KPod:
		Mutate(s.Store, k, ns, name, func(o *v1.Pod) bool { touchAnn(o); return true })
	case KPVC:
		Mutate(s.Store, k, ns, name, func(o *v1.PersistentVolumeClaim) bool { touchAnn(o); return true })
	case KRev:
		Mutate(s.Store, k, ns, name, func(o *appsv1.ControllerRevision) bool { touchAnn(o); return true })
	case KSet:
		Mutate(s.Store, k, ns, name, func(o *asv1.StatefulSet) bool { touchAnn(o); return true })
	case KBSet:
		Mutate(s.Store, k, ns, name, func(o *appsv1.StatefulSet) bool { touchAnn(o); return true })
	}
}

func touchAnn(o metav1.Object) {
	a := o.GetAnnotations()
	if a == nil {
		a = map[string]string{}
	}
	a["racer"] = a["racer"] + "x"
	o.SetAnnotations(a)
}

func (s *Sim) stepListerFault(st Step) bool {
	inf := s.informer(KPVC)
	if inf == nil {
		return false
	}
	if s.claimGroupInFlight() {
		// a worker is parked inside the claim loop of one pod: which claims it has
		// already looked up depends on Go map order in the code under test, so a
		// lookup fault planted now would or would not be met (DESIGN 13.2, claim groups)
		return false
	}
	set, c := s.getSet(st.A)
	if set == nil || c.Claims == 0 {
		return false
	}
	name := fmt.Sprintf("vol%d-%s-%d", abs(st.C)%c.Claims, c.Name, abs(st.B)%8)
	inf.indexer.getErr[key(NS, name)] = fmt.Errorf("injected lister failure")
	return true
}

// ---- user steps ------------------------------------------------------------------

func (s *Sim) stepMkSet(st Step) bool {
	c := s.setCfg(st.A)
	if c == nil {
		return false
	}
	if _, ok := Peek[*asv1.StatefulSet](s.Store, KSet, NS, c.Name); ok {
		return false
	}
	obj := BuildSet(c)
	if _, err := stCreate(s.Store, KSet, NS, obj); err != nil {
		harnessf("mkset: %v", err)
	}
	s.count("user.mkset")
	return true
}

func (s *Sim) stepDelSet(st Step) bool {
	set, c := s.getSet(st.A)
	if set == nil {
		return false
	}
	var pol metav1.DeletionPropagation
	switch abs(st.B) % 3 {
	case 0:
		pol = metav1.DeletePropagationBackground
	case 1:
		pol = metav1.DeletePropagationForeground
	case 2:
		pol = metav1.DeletePropagationOrphan
	}
	stDelete(s.Store, KSet, NS, c.Name, metav1.DeleteOptions{PropagationPolicy: &pol})
	s.count("user.delset." + string(pol))
	return true
}

func (s *Sim) stepEditSet(st Step) bool {
	set, c := s.getSet(st.A)
	if set == nil || set.DeletionTimestamp != nil {
		return false
	}
	changed := Mutate(s.Store, KSet, NS, c.Name, func(o *asv1.StatefulSet) bool {
		switch st.K {
		case "replicas":
			o.Spec.Replicas = int32p(int32(abs(st.B)))
		case "slots":
			if o.Annotations == nil {
				o.Annotations = map[string]string{}
			}
			if st.C == 1 {
				delete(o.Annotations, annSlots)
			} else {
				o.Annotations[annSlots] = st.S
			}
		case "slotadd":
			before := map[string]string{}
			for k, v := range o.Annotations {
				before[k] = v
			}
			want := ModelSlots(o.Annotations)
			want[int32(st.B)] = true
			panicked := func() (msg string) {
				defer func() {
					if x := recover(); x != nil {
						if he, ok := x.(HarnessError); ok {
							panic(he)
						}
						msg = fmt.Sprintf("AddDeleteSlots panicked for annotation %q: %v", before[annSlots], x)
					}
				}()
				if err := helper.AddDeleteSlots(o, sets.NewInt32(int32(st.B))); err != nil {
					harnessf("AddDeleteSlots: %v", err)
				}
				return ""
			}()
			if panicked != "" {
				// a client helper that panics on an admitted annotation value
				s.violate("C01", "C01.helper-panic", "AddDeleteSlots", panicked)
				s.violate("C15", "C15.panic", "client/apis/apps/v1/helper", panicked)
				setSlotsAnn(o, want)
			} else {
				s.selfCheckSlots(o, want, before)
			}
		case "scalein":
			d := Desired(specReplicas(o), ModelSlots(o.Annotations))
			if len(d) == 0 {
				return false
			}
			k := d[abs(st.B)%len(d)]
			sl := ModelSlots(o.Annotations)
			sl[k] = true
			o.Spec.Replicas = int32p(specReplicas(o) - 1)
			setSlotsAnn(o, sl)
			s.oracles.noteScaleIn(s, o, k)
		case "scaleout":
			sl := ModelSlots(o.Annotations)
			ks := sortedOrdinals(sl)
			if len(ks) == 0 {
				o.Spec.Replicas = int32p(specReplicas(o) + 1)
			} else {
				delete(sl, ks[abs(st.B)%len(ks)])
				o.Spec.Replicas = int32p(specReplicas(o) + 1)
				setSlotsAnn(o, sl)
			}
		case "template":
			// C=1: the edit goes in raw (kubectl); otherwise through the defaulter,
			// as the hijack client would send it
			t := TemplateFor(c, abs(st.B))
			if st.C == 1 {
				t = Template(c.Labels, abs(st.B))
			}
			o.Spec.Template = t
		case "partition":
			if st.B < 0 {
				if st.C == 1 {
					o.Spec.UpdateStrategy.RollingUpdate = nil
				} else {
					return false
				}
			} else {
				o.Spec.UpdateStrategy.RollingUpdate = &asv1.RollingUpdateStatefulSetStrategy{Partition: int32p(int32(st.B))}
			}
		case "strategy":
			if abs(st.B)%2 == 0 {
				o.Spec.UpdateStrategy.Type = asv1.RollingUpdateStatefulSetStrategyType
				if o.Spec.UpdateStrategy.RollingUpdate == nil {
					o.Spec.UpdateStrategy.RollingUpdate = &asv1.RollingUpdateStatefulSetStrategy{Partition: int32p(0)}
				}
			} else {
				o.Spec.UpdateStrategy.Type = asv1.OnDeleteStatefulSetStrategyType
				o.Spec.UpdateStrategy.RollingUpdate = nil
			}
		case "policy":
			if abs(st.B)%2 == 0 {
				o.Spec.PodManagementPolicy = asv1.OrderedReadyPodManagement
			} else {
				o.Spec.PodManagementPolicy = asv1.ParallelPodManagement
			}
		case "pause":
			if o.Annotations == nil {
				o.Annotations = map[string]string{}
			}
			if st.B != 0 {
				o.Annotations[annPaused] = "true"
			} else {
				delete(o.Annotations, annPaused)
			}
		case "touch":
			if o.Annotations == nil {
				o.Annotations = map[string]string{}
			}
			if st.C == 1 {
				if o.Labels == nil {
					o.Labels = map[string]string{}
				}
				o.Labels["touched"] = fmt.Sprint(st.B)
			} else {
				o.Annotations["touched"] = fmt.Sprint(st.B)
			}
		case "histlimit":
			o.Spec.RevisionHistoryLimit = int32p(int32(abs(st.B)))
		case "claimtmpl":
			// the CRD does not make volumeClaimTemplates immutable: B templates from now on
			// (existing pods keep what they were built with)
			// (only ever fewer: a pod that lacks a volume for an added template needs a
			// spec change the API server forbids for ever, which is outside C02's premise)
			n := abs(st.B) % 3
			if len(o.Spec.VolumeClaimTemplates) <= n {
				return false
			}
			o.Spec.VolumeClaimTemplates = claimTemplates(n, c.ClaimLabels)
		}
		return true
	})
	if changed {
		s.count("user." + st.K)
		s.oracles.noteUserEdit(s, st.K, c.Name)
	}
	return changed
}

func setSlotsAnn(o *asv1.StatefulSet, sl map[int32]bool) {
	if o.Annotations == nil {
		o.Annotations = map[string]string{}
	}
	if len(sl) == 0 {
		delete(o.Annotations, annSlots)
		return
	}
	ks := sortedOrdinals(sl)
	b := []byte("[")
	for i, k := range ks {
		if i > 0 {
			b = append(b, ',')
		}
		b = append(b, fmt.Sprint(k)...)
	}
	b = append(b, ']')
	o.Annotations[annSlots] = string(b)
}

// selfCheckSlots is a harness self-check (not a property decision): the helper's
// write must read back as the union and leave other annotations alone.
func (s *Sim) selfCheckSlots(o *asv1.StatefulSet, want map[int32]bool, before map[string]string) {
	got := ModelSlots(o.Annotations)
	if len(got) != len(want) {
		s.Notes = append(s.Notes, fmt.Sprintf("selfcheck: AddDeleteSlots read-back %v want %v", got, want))
	}
	for k, v := range before {
		if k != annSlots && o.Annotations[k] != v {
			s.Notes = append(s.Notes, "selfcheck: AddDeleteSlots disturbed annotation "+k)
		}
	}
}

// stepResubmit: a user re-submits the set through the real hijack client
// (read, then update of the read-back object) as a parked procedure.
func (s *Sim) stepResubmit(st Step) bool {
	set, c := s.getSet(st.A)
	if set == nil {
		return false
	}
	for _, p := range s.procs {
		if !p.done {
			return false
		}
	}
	hc := helper.NewHijackClient(s.kube, s.as)
	a := &actor{name: fmt.Sprintf("user%d", len(s.procs)+1)}
	s.procs = append(s.procs, a)
	name := c.Name
	s.count("user.resubmit")
	s.spawn(a, func() {
		sts, err := hc.AppsV1().StatefulSets(NS).Get(context.TODO(), name, metav1.GetOptions{})
		if err != nil {
			a.result = err
			return
		}
		_, a.result = hc.AppsV1().StatefulSets(NS).Update(context.TODO(), sts, metav1.UpdateOptions{})
	})
	return true
}

func (s *Sim) stepProcRelease(st Step) bool {
	var ps []*actor
	for _, p := range s.procs {
		if !p.done && p.pending != nil {
			ps = append(ps, p)
		}
	}
	if len(ps) == 0 {
		return false
	}
	a := ps[abs(st.A)%len(ps)]
	code := st.B
	if s.quiet {
		code = FNone
	}
	s.release(a, s.decide(a, a.pending, code, st.C))
	if a.done && a.panicVal != nil {
		if he, ok := a.panicVal.(HarnessError); ok {
			panic(he)
		}
		s.violate("C17", "C17.panic", fmt.Sprint(a.panicVal), fmt.Sprintf("procedure %s panicked: %v\n%s", a.name, a.panicVal, a.panicStack))
	}
	return true
}

// ---- pods injected or edited by users and other controllers ---------------------

const (
	ownThis = iota
	ownNone
	ownStaleUID
	ownOtherKind
)

// plainOwnerRef is a non-controller owner reference as a user or another
// component writes it: the optional "controller" and "blockOwnerDeletion" fields
// are absent.
func plainOwnerRef() metav1.OwnerReference {
	return metav1.OwnerReference{APIVersion: "v1", Kind: "ConfigMap", Name: "cfg", UID: types.UID("cfg-uid")}
}

// ownAltVersion (bit 2 of the class): the reference to this set is written with
// the other version the CRD serves; it names the same object (kind, name, UID).
const ownAltVersion = 4

func (s *Sim) ownerRefs(class int, set *asv1.StatefulSet, c *SetCfg) []metav1.OwnerReference {
	switch class % 4 {
	case ownThis:
		if set != nil {
			ver := crdAPIVersion
			if class&ownAltVersion != 0 {
				ver = "apps.pingcap.com/v1alpha1"
			}
			return []metav1.OwnerReference{ownerRefFor(ver, crdKind, set.Name, set.UID)}
		}
		fallthrough
	case ownStaleUID:
		return []metav1.OwnerReference{ownerRefFor(crdAPIVersion, crdKind, c.Name, types.UID("stale-uid-"+c.Name))}
	case ownOtherKind:
		return []metav1.OwnerReference{ownerRefFor("apps/v1", "ReplicaSet", "rs-"+c.Name, types.UID("rs-uid-"+c.Name))}
	}
	return nil
}

// findOrMakeRevision returns the name of a revision of set c holding template
// version tv; it creates one (owned by the set if it exists) when none is
// stored.
func (s *Sim) findOrMakeRevision(set *asv1.StatefulSet, c *SetCfg, tv int, create bool) string {
	t := TemplateFor(c, tv)
	want := templateContent(&t)
	for _, r := range All[*appsv1.ControllerRevision](s.Store, KRev) {
		if got, ok := RevTemplate(r); ok && sameTemplate(got, want) {
			if ref := controllerOf(r); ref == nil || (set != nil && ref.UID == set.UID) {
				return r.Name
			}
		}
	}
	if !create {
		return ""
	}
	maxRev := int64(0)
	for _, r := range All[*appsv1.ControllerRevision](s.Store, KRev) {
		if r.Revision > maxRev {
			maxRev = r.Revision
		}
	}
	r := &appsv1.ControllerRevision{}
	r.Name = fmt.Sprintf("%s-inj%d", c.Name, tv)
	r.Labels = map[string]string{}
	for k, v := range t.Labels {
		r.Labels[k] = v
	}
	r.Data = runtime.RawExtension{Raw: RefPatch(&t)}
	r.Revision = maxRev + 1
	r.OwnerReferences = s.ownerRefs(ownThis, set, c)
	if _, err := stCreate(s.Store, KRev, NS, r); err != nil {
		return ""
	}
	return r.Name
}

// mkpod: A=set, B=ordinal, C=attribute bits, D=template version, S=explicit name.
// bits: owner(2) | phase(3)<<2 | terminating<<5 | nomatch<<6 | revmode(2)<<7 | novolumes<<9 | altversion<<10 | plain extra owner<<11 | no pod-name label<<12
func (s *Sim) stepMkPod(st Step) bool {
	set, c := s.getSet(st.A)
	if c == nil {
		return false
	}
	var base *asv1.StatefulSet
	if set != nil {
		base = set
	} else {
		base = BuildSet(c)
	}
	bits := abs(st.C)
	owner := bits & 3
	phase := (bits >> 2) & 7
	term := (bits>>5)&1 == 1
	nomatch := (bits>>6)&1 == 1
	revmode := (bits >> 7) & 3
	tv := abs(st.D)
	tmpl := TemplateFor(c, tv)
	rev := ""
	switch revmode {
	case 0, 1:
		rev = s.findOrMakeRevision(set, c, tv, true)
	case 2:
		rev = c.Name + "-dangling"
	}
	p := ModelPod(base, &tmpl, int32(abs(st.B)%14), rev)
	if (bits>>9)&1 == 1 {
		// a pod somebody built without the per-ordinal claim volumes (storage repair path)
		var keep []v1.Volume
		for _, vol := range p.Spec.Volumes {
			if vol.PersistentVolumeClaim == nil {
				keep = append(keep, vol)
			}
		}
		p.Spec.Volumes = keep
	}
	if st.S != "" {
		p.Name = st.S
		p.Labels[lblPodName] = st.S
		p.Spec.Hostname = st.S
	}
	if _, ok := s.Store.tables[KPod][key(NS, p.Name)]; ok {
		return false
	}
	if nomatch {
		for k := range c.Labels {
			p.Labels[k] = "other"
			break
		}
	}
	p.OwnerReferences = s.ownerRefs(owner|((bits>>10)&1)<<2, set, c)
	if (bits>>11)&1 == 1 {
		p.OwnerReferences = append(p.OwnerReferences, plainOwnerRef())
	}
	if (bits>>12)&1 == 1 {
		// somebody's hand-made pod: no pod-name label (the controller repairs the
		// identity of a pod it claims with an update)
		delete(p.Labels, lblPodName)
	}
	created, err := stCreate(s.Store, KPod, NS, p)
	if err != nil {
		return false
	}
	s.count("other.mkpod")
	Mutate(s.Store, KPod, NS, created.Name, func(o *v1.Pod) bool {
		setPodPhase(o, phase)
		return true
	})
	if term {
		if o, ok := Peek[*v1.Pod](s.Store, KPod, NS, created.Name); ok {
			s.Store.markDeleting(KPod, key(NS, created.Name), o, nil)
		}
	}
	return true
}

func setPodPhase(o *v1.Pod, phase int) {
	switch phase % 6 {
	case 0:
		o.Status.Phase = v1.PodPending
		o.Spec.NodeName = ""
		o.Status.Conditions = nil
	case 1:
		o.Status.Phase = v1.PodPending
		o.Spec.NodeName = "node"
		o.Status.Conditions = nil
		// Half of the scheduled-but-not-running states are phase Unknown (node lost): the
		// choice is a function of the stored object (last digit of its resourceVersion, or
		// of its name for a new object), so it replays and draws nothing from the PRNG.
		sel := o.ResourceVersion
		if sel == "" {
			sel = o.Name
		}
		if sel != "" && sel[len(sel)-1]%2 == 1 {
			o.Status.Phase = v1.PodUnknown
		}
	case 2:
		o.Status.Phase = v1.PodRunning
		o.Spec.NodeName = "node"
		o.Status.Conditions = []v1.PodCondition{{Type: v1.PodReady, Status: v1.ConditionFalse}}
	case 3:
		o.Status.Phase = v1.PodRunning
		o.Spec.NodeName = "node"
		o.Status.Conditions = []v1.PodCondition{{Type: v1.PodReady, Status: v1.ConditionTrue}}
	case 4:
		o.Status.Phase = v1.PodFailed
		o.Spec.NodeName = "node"
		o.Status.Conditions = nil
	case 5:
		o.Status.Phase = v1.PodSucceeded
		o.Spec.NodeName = "node"
		o.Status.Conditions = nil
	}
}

// mkrev: A=set, B=template version, C=bits, D=revision number.
// bits: owner(2) | labelmode(2)<<2 (0 selector labels, 1 marker only, 2 both, 3 none)
func (s *Sim) stepMkRev(st Step) bool {
	set, c := s.getSet(st.A)
	if c == nil {
		return false
	}
	bits := abs(st.C)
	owner := bits & 3
	lm := (bits >> 2) & 3
	t := TemplateFor(c, abs(st.B))
	r := &appsv1.ControllerRevision{}
	r.Name = fmt.Sprintf("%s-r%d-%d", c.Name, abs(st.B), bits)
	if st.S != "" {
		r.Name = st.S
	}
	if _, ok := s.Store.tables[KRev][key(NS, r.Name)]; ok {
		return false
	}
	r.Labels = map[string]string{}
	if lm == 0 || lm == 2 {
		for k, v := range t.Labels {
			r.Labels[k] = v
		}
	}
	if lm == 1 || lm == 2 {
		r.Labels[lblUpgrade] = c.Name
	}
	r.Data = runtime.RawExtension{Raw: RefPatch(&t)}
	r.Revision = int64(abs(st.D))
	r.OwnerReferences = s.ownerRefs(owner|((bits>>4)&1)<<2, set, c)
	if (bits>>5)&1 == 1 {
		r.OwnerReferences = append(r.OwnerReferences, plainOwnerRef())
	}
	if _, err := stCreate(s.Store, KRev, NS, r); err != nil {
		return false
	}
	s.count("other.mkrev")
	return true
}

func (s *Sim) stepPodEdit(st Step) bool {
	p := s.podByIndex(st.A)
	if p == nil {
		return false
	}
	name := p.Name
	switch st.K {
	case "podrm":
		stDelete(s.Store, KPod, p.Namespace, name, metav1.DeleteOptions{})
		s.count("user.podrm")
		return true
	case "podlabel":
		// toggle selector match: flip the value of the first selector label of the owning set
		parent, _, _ := podOrdinal(name)
		var c *SetCfg
		for i := range s.Cfg.Sets {
			if s.Cfg.Sets[i].Name == parent {
				c = &s.Cfg.Sets[i]
			}
		}
		if c == nil || len(c.Labels) == 0 {
			return false
		}
		k := sortedKeys(c.Labels)[0]
		s.count("user.podlabel")
		return Mutate(s.Store, KPod, p.Namespace, name, func(o *v1.Pod) bool {
			if o.Labels == nil {
				o.Labels = map[string]string{}
			}
			if o.Labels[k] == c.Labels[k] {
				o.Labels[k] = "other"
			} else {
				o.Labels[k] = c.Labels[k]
			}
			return true
		})
	case "podorphan":
		s.count("user.podorphan")
		return Mutate(s.Store, KPod, p.Namespace, name, func(o *v1.Pod) bool {
			if len(o.OwnerReferences) == 0 {
				return false
			}
			o.OwnerReferences = nil
			return true
		})
	case "podown":
		parent, _, _ := podOrdinal(name)
		var c *SetCfg
		for i := range s.Cfg.Sets {
			if s.Cfg.Sets[i].Name == parent {
				c = &s.Cfg.Sets[i]
			}
		}
		if c == nil {
			return false
		}
		set, _ := Peek[*asv1.StatefulSet](s.Store, KSet, p.Namespace, c.Name)
		s.count("user.podown")
		return Mutate(s.Store, KPod, p.Namespace, name, func(o *v1.Pod) bool {
			o.OwnerReferences = s.ownerRefs(st.B, set, c)
			return true
		})
	}
	return false
}

// ---- kubelet ------------------------------------------------------------------------

// kube: A=pod index, B=op (0 run+ready, 1 running not ready, 2 unready, 3 fail,
// 4 succeed, 5 finish termination, 6 schedule only)
func (s *Sim) stepKubelet(st Step) bool {
	p := s.podByIndex(st.A)
	if p == nil {
		return false
	}
	op := abs(st.B) % 7
	name := p.Name
	if op == 5 {
		if p.DeletionTimestamp == nil {
			return false
		}
		s.Store.Remove(KPod, p.Namespace, name)
		s.count("kubelet.terminated")
		return true
	}
	if podTerminal(p) {
		return false // terminal phases are final
	}
	phase := map[int]int{0: 3, 1: 2, 2: 2, 3: 4, 4: 5, 6: 1}[op]
	if p.DeletionTimestamp != nil && (op == 0) {
		return false
	}
	s.count([]string{"kubelet.ready", "kubelet.running", "kubelet.unready", "kubelet.failed", "kubelet.succeeded", "", "kubelet.scheduled"}[op])
	return Mutate(s.Store, KPod, p.Namespace, name, func(o *v1.Pod) bool {
		before := canonJSON(o.Status) + o.Spec.NodeName
		setPodPhase(o, phase)
		return canonJSON(o.Status)+o.Spec.NodeName != before
	})
}

// pvcterm: a user deletes a claim that is still protected (a pod uses it, or did
// a moment ago): it keeps existing, with a deletion timestamp, for as long as the
// protection finalizer stays. The controller never deletes or rewrites claims,
// and a claim that exists is not created again.
func (s *Sim) stepPVCTerm(st Step) bool {
	keys := s.Store.Keys(KPVC)
	if len(keys) == 0 {
		return false
	}
	o := s.Store.tables[KPVC][keys[abs(st.A)%len(keys)]].(*v1.PersistentVolumeClaim)
	if o.DeletionTimestamp != nil {
		return false
	}
	s.count("user.pvcterm")
	s.Store.markDeleting(KPVC, key(o.Namespace, o.Name), o, []string{"kubernetes.io/pvc-protection"})
	return true
}

// pvcgap: the claim watch is down; the user, starting a replica over, deletes a
// claim no pod uses any more; the watch comes back with a relist. The claim cache
// is consistent with the API afterwards (the claim is in neither), whatever the
// controller remembers of it.
func (s *Sim) stepPVCGap(st Step) bool {
	if s.inc == nil || len(s.ParkedWorkers()) > 0 {
		// (not under a reconcile in flight: one that has already looked the claim up
		// would rightly go on with what it saw)
		return false
	}
	used := map[string]bool{}
	for _, ky := range s.Store.Keys(KPod) {
		p := s.Store.tables[KPod][ky].(*v1.Pod)
		for _, vol := range p.Spec.Volumes {
			if vol.PersistentVolumeClaim != nil {
				used[key(p.Namespace, vol.PersistentVolumeClaim.ClaimName)] = true
			}
		}
	}
	var free []string
	for _, ky := range s.Store.Keys(KPVC) {
		if !used[ky] {
			free = append(free, ky)
		}
	}
	if len(free) == 0 {
		return false
	}
	o := s.Store.tables[KPVC][free[abs(st.A)%len(free)]]
	s.Store.Remove(KPVC, o.GetNamespace(), o.GetName())
	s.count("user.pvcgap")
	s.Relist(KPVC)
	return true
}

// ---- garbage collector -------------------------------------------------------------

// stepGC performs one garbage-collector action; false if there is nothing to do.
func (s *Sim) stepGC() bool {
	st := s.Store
	// 1. sets being deleted with a GC finalizer
	for _, k := range []Kind{KSet, KBSet} {
		for _, ky := range st.Keys(k) {
			o := st.tables[k][ky]
			if o.GetDeletionTimestamp() == nil {
				continue
			}
			fins := o.GetFinalizers()
			has := func(f string) bool {
				for _, x := range fins {
					if x == f {
						return true
					}
				}
				return false
			}
			uid := o.GetUID()
			if has(finOrphan) {
				if s.gcOrphanOne(uid) {
					s.count("gc.orphaned")
					return true
				}
				s.gcRemoveFinalizer(k, o, finOrphan)
				s.count("gc.finalized")
				return true
			}
			if has(finForeground) {
				if s.gcDeleteOneDependent(uid) {
					s.count("gc.deleted")
					return true
				}
				if s.hasDependents(uid) {
					continue // dependents still terminating
				}
				s.gcRemoveFinalizer(k, o, finForeground)
				s.count("gc.finalized")
				return true
			}
		}
	}
	// 2. background: dependents whose StatefulSet owner is gone
	live := map[types.UID]bool{}
	for _, k := range []Kind{KSet, KBSet} {
		for _, o := range st.tables[k] {
			live[o.GetUID()] = true
		}
	}
	for _, k := range []Kind{KPod, KRev} {
		for _, ky := range st.Keys(k) {
			o := st.tables[k][ky]
			refs := o.GetOwnerReferences()
			if len(refs) == 0 {
				continue
			}
			allGone := true
			for _, r := range refs {
				if r.Kind != "StatefulSet" || live[r.UID] {
					allGone = false
				}
			}
			if !allGone {
				continue
			}
			if p, ok := o.(*v1.Pod); ok && p.DeletionTimestamp != nil {
				continue
			}
			bg := metav1.DeletePropagationBackground
			stDelete(st, k, o.GetNamespace(), o.GetName(), metav1.DeleteOptions{PropagationPolicy: &bg})
			s.count("gc.collected")
			return true
		}
	}
	return false
}

func (s *Sim) hasDependents(uid types.UID) bool {
	for _, k := range []Kind{KPod, KRev} {
		for _, o := range s.Store.tables[k] {
			for _, r := range o.GetOwnerReferences() {
				if r.UID == uid {
					return true
				}
			}
		}
	}
	return false
}

func (s *Sim) gcOrphanOne(uid types.UID) bool {
	for _, k := range []Kind{KPod, KRev} {
		for _, ky := range s.Store.Keys(k) {
			o := s.Store.tables[k][ky]
			for _, r := range o.GetOwnerReferences() {
				if r.UID == uid {
					strip := func(m metav1.Object) {
						var keep []metav1.OwnerReference
						for _, x := range m.GetOwnerReferences() {
							if x.UID != uid {
								keep = append(keep, x)
							}
						}
						m.SetOwnerReferences(keep)
					}
					if k == KPod {
						Mutate(s.Store, k, o.GetNamespace(), o.GetName(), func(p *v1.Pod) bool { strip(p); return true })
					} else {
						Mutate(s.Store, k, o.GetNamespace(), o.GetName(), func(p *appsv1.ControllerRevision) bool { strip(p); return true })
					}
					return true
				}
			}
		}
	}
	return false
}

func (s *Sim) gcDeleteOneDependent(uid types.UID) bool {
	for _, k := range []Kind{KPod, KRev} {
		for _, ky := range s.Store.Keys(k) {
			o := s.Store.tables[k][ky]
			for _, r := range o.GetOwnerReferences() {
				if r.UID == uid && o.GetDeletionTimestamp() == nil {
					stDelete(s.Store, k, o.GetNamespace(), o.GetName(), metav1.DeleteOptions{})
					return true
				}
			}
		}
	}
	return false
}

func (s *Sim) gcRemoveFinalizer(k Kind, o Obj, f string) {
	rm := func(m metav1.Object) {
		var keep []string
		for _, x := range m.GetFinalizers() {
			if x != f {
				keep = append(keep, x)
			}
		}
		m.SetFinalizers(keep)
	}
	if k == KSet {
		Mutate(s.Store, k, o.GetNamespace(), o.GetName(), func(p *asv1.StatefulSet) bool { rm(p); return true })
	} else {
		Mutate(s.Store, k, o.GetNamespace(), o.GetName(), func(p *appsv1.StatefulSet) bool { rm(p); return true })
	}
}

// stepSettle drives the cluster to a fault-free fixed point without judging it
// (used by scenario prefixes): deliver everything, kubelet makes pods ready,
// workers run to completion, until nothing changes. With A=1 the kubelet stays
// out of it (pods the controller creates stay Pending).
func (s *Sim) stepSettle(noKubelet bool) bool {
	if s.inc == nil {
		return false
	}
	wasQuiet := s.quiet
	s.quiet = true
	stuck := map[string]int{}
	for round := 0; round < 60; round++ {
		changed := false
		for _, k := range cacheKinds {
			for s.Deliver(k) {
				changed = true
			}
		}
		if !noKubelet && s.kubeletSettle(round, stuck) {
			changed = true
		}
		for _, k := range cacheKinds {
			for s.Deliver(k) {
				changed = true
			}
		}
		s.fireDelayed()
		if s.runWorkersToCompletion(200) > 0 {
			changed = true
		}
		if !changed {
			break
		}
	}
	s.quiet = wasQuiet
	return true
}

// NS2 is a second namespace holding a same-named twin of set 0.
const NS2 = "other"

// mktwin: a StatefulSet with the name and spec of set A in another namespace,
// with one pod it controls and one matching orphan. Nothing in namespace NS may
// ever be confused with it (claims, events, keys are per namespace).
func (s *Sim) stepMkTwin(st Step) bool {
	c := s.setCfg(st.A)
	if c == nil {
		return false
	}
	if _, ok := s.Store.tables[KSet][key(NS2, c.Name)]; ok {
		return false
	}
	obj := BuildSet(c)
	obj.Namespace = NS2
	obj.Spec.Replicas = int32p(2)
	delete(obj.Annotations, annSlots)
	set, err := stCreate(s.Store, KSet, NS2, obj)
	if err != nil {
		return false
	}
	tmpl := TemplateFor(c, c.Template)
	for ord, owned := range []bool{true, false} {
		p := ModelPod(set, &tmpl, int32(ord), "")
		if owned {
			p.OwnerReferences = []metav1.OwnerReference{ownerRefFor(crdAPIVersion, crdKind, set.Name, set.UID)}
		}
		if created, err := stCreate(s.Store, KPod, NS2, p); err == nil {
			Mutate(s.Store, KPod, NS2, created.Name, func(o *v1.Pod) bool { setPodPhase(o, 3); return true })
		}
	}
	s.count("other.mktwin")
	return true
}
