package sim

// Simulator-owned caches (DESIGN.md §3.4): a deterministic indexer under the real
// generated listers, informer stubs that capture the controller's event
// handlers, and the deliver / relist / resync actions.

import (
	"fmt"
	"reflect"
	"sort"
	"time"

	appsv1 "k8s.io/api/apps/v1"
	v1 "k8s.io/api/core/v1"
	apierrors "k8s.io/apimachinery/pkg/api/errors"
	"k8s.io/apimachinery/pkg/watch"
	kubeappsinformers "k8s.io/client-go/informers/apps/v1"
	coreinformers "k8s.io/client-go/informers/core/v1"
	kubeappslisters "k8s.io/client-go/listers/apps/v1"
	corelisters "k8s.io/client-go/listers/core/v1"
	"k8s.io/client-go/tools/cache"

	asv1 "github.com/pingcap/advanced-statefulset/client/apis/apps/v1"
	asinformers "github.com/pingcap/advanced-statefulset/client/client/informers/externalversions/apps/v1"
	aslisters "github.com/pingcap/advanced-statefulset/client/client/listers/apps/v1"
)

// detIndexer wraps a real cache.Indexer: list results are sorted by key and
// rotated by an amount chosen by the simulator (real order is arbitrary).
type detIndexer struct {
	cache.Indexer
	sim  *Sim
	kind Kind
	// getErr, when set, makes GetByKey fail (lister fault) for the named key once.
	getErr map[string]error
}

func (d *detIndexer) order(items []interface{}) []interface{} {
	sort.Slice(items, func(i, j int) bool {
		ki, _ := cache.MetaNamespaceKeyFunc(items[i])
		kj, _ := cache.MetaNamespaceKeyFunc(items[j])
		return ki < kj
	})
	n := len(items)
	if n > 1 {
		r := d.sim.rotation(n)
		if r > 0 {
			items = append(append([]interface{}{}, items[r:]...), items[:r]...)
		}
	}
	return items
}

func (d *detIndexer) List() []interface{} {
	items := d.order(d.Indexer.List())
	d.sim.observeCacheList(d.kind, items)
	return items
}
func (d *detIndexer) Index(indexName string, obj interface{}) ([]interface{}, error) {
	items, err := d.Indexer.Index(indexName, obj)
	if err != nil {
		return nil, err
	}
	items = d.order(items)
	d.sim.observeCacheList(d.kind, items)
	return items, nil
}
func (d *detIndexer) ByIndex(indexName, indexedValue string) ([]interface{}, error) {
	items, err := d.Indexer.ByIndex(indexName, indexedValue)
	if err != nil {
		return nil, err
	}
	return d.order(items), nil
}
func (d *detIndexer) GetByKey(k string) (interface{}, bool, error) {
	if err, ok := d.getErr[k]; ok {
		delete(d.getErr, k)
		d.sim.count("fault.lister." + d.kind.String())
		if a := d.sim.current; a != nil && a.rec != nil {
			a.rec.ListerFaults = append(a.rec.ListerFaults, k)
		}
		return nil, false, err
	}
	item, ok, err := d.Indexer.GetByKey(k)
	d.sim.observeCacheGet(d.kind, k, item, ok)
	return item, ok, err
}

// informerStub implements cache.SharedIndexInformer far enough for
// NewStatefulSetController: it hands out the indexer, reports HasSynced and
// captures the registered handlers.
type informerStub struct {
	sim      *Sim
	kind     Kind
	indexer  *detIndexer
	handlers []cache.ResourceEventHandler
	synced   bool
	shadow   map[string]Obj // deep copies of cached objects (cache mutation detector)
}

func newInformerStub(s *Sim, k Kind) *informerStub {
	idx := cache.NewIndexer(cache.MetaNamespaceKeyFunc, cache.Indexers{cache.NamespaceIndex: cache.MetaNamespaceIndexFunc})
	return &informerStub{sim: s, kind: k, indexer: &detIndexer{Indexer: idx, sim: s, kind: k, getErr: map[string]error{}}, shadow: map[string]Obj{}}
}

type handlerReg struct{}

func (handlerReg) HasSynced() bool { return true }

func (i *informerStub) AddEventHandler(h cache.ResourceEventHandler) (cache.ResourceEventHandlerRegistration, error) {
	i.handlers = append(i.handlers, h)
	return handlerReg{}, nil
}
func (i *informerStub) AddEventHandlerWithResyncPeriod(h cache.ResourceEventHandler, _ time.Duration) (cache.ResourceEventHandlerRegistration, error) {
	return i.AddEventHandler(h)
}
func (i *informerStub) RemoveEventHandler(cache.ResourceEventHandlerRegistration) error { return nil }
func (i *informerStub) GetStore() cache.Store                                           { return i.indexer }
func (i *informerStub) GetController() cache.Controller                                 { return nil }
func (i *informerStub) Run(stopCh <-chan struct{})                                      { panic("informer Run is not simulated") }
func (i *informerStub) HasSynced() bool                                                 { return i.synced }
func (i *informerStub) LastSyncResourceVersion() string                                 { return "" }
func (i *informerStub) SetWatchErrorHandler(cache.WatchErrorHandler) error              { return nil }
func (i *informerStub) SetTransform(cache.TransformFunc) error                          { return nil }
func (i *informerStub) IsStopped() bool                                                 { return false }
func (i *informerStub) AddIndexers(indexers cache.Indexers) error {
	return i.indexer.AddIndexers(indexers)
}
func (i *informerStub) GetIndexer() cache.Indexer { return i.indexer }

// typed informer facades
type podInformer struct{ *informerStub }

func (p podInformer) Informer() cache.SharedIndexInformer { return p.informerStub }
func (p podInformer) Lister() corelisters.PodLister       { return corelisters.NewPodLister(p.indexer) }

var _ coreinformers.PodInformer = podInformer{}

type pvcInformer struct{ *informerStub }

func (p pvcInformer) Informer() cache.SharedIndexInformer { return p.informerStub }
func (p pvcInformer) Lister() corelisters.PersistentVolumeClaimLister {
	return corelisters.NewPersistentVolumeClaimLister(p.indexer)
}

var _ coreinformers.PersistentVolumeClaimInformer = pvcInformer{}

type revInformer struct{ *informerStub }

func (p revInformer) Informer() cache.SharedIndexInformer { return p.informerStub }
func (p revInformer) Lister() kubeappslisters.ControllerRevisionLister {
	return kubeappslisters.NewControllerRevisionLister(p.indexer)
}

var _ kubeappsinformers.ControllerRevisionInformer = revInformer{}

type setInformer struct{ *informerStub }

func (p setInformer) Informer() cache.SharedIndexInformer { return p.informerStub }
func (p setInformer) Lister() aslisters.StatefulSetLister {
	return aslisters.NewStatefulSetLister(p.indexer)
}

var _ asinformers.StatefulSetInformer = setInformer{}

// ---- cache actions ----------------------------------------------------------

func (i *informerStub) setCached(o Obj) {
	if err := i.indexer.Indexer.Update(o); err != nil {
		panic(err)
	}
	k, _ := cache.MetaNamespaceKeyFunc(o)
	i.shadow[k] = cp(o)
}

func (i *informerStub) dropCached(o Obj) {
	if err := i.indexer.Indexer.Delete(o); err != nil {
		panic(err)
	}
	k, _ := cache.MetaNamespaceKeyFunc(o)
	delete(i.shadow, k)
}

// apply puts one watch event into the cache and calls the captured handlers.
func (i *informerStub) apply(ev WatchEvent, initial bool) {
	if notify := i.stage(ev, initial); notify != nil {
		notify()
	}
	i.sim.afterHandlers()
}

// stage updates the cache for one event and returns the notification of the
// handlers (nil if there is none). A shared informer updates its store first and
// hands the notification to its listeners asynchronously, so the store can be
// several events ahead of what the handlers have been told (DeliverBatch).
func (i *informerStub) stage(ev WatchEvent, initial bool) func() {
	k, _ := cache.MetaNamespaceKeyFunc(ev.Obj)
	oldI, exists, _ := i.indexer.Indexer.GetByKey(k)
	switch ev.Type {
	case watch.Added, watch.Modified:
		// the cache owns this copy; handlers get pointers into the cache as with
		// a real shared informer
		obj := cp(ev.Obj)
		i.setCached(obj)
		if exists {
			return func() {
				i.sim.onCacheEvent(i.kind, "update", oldI.(Obj), obj, false)
				for _, h := range i.handlers {
					h.OnUpdate(oldI, obj)
				}
			}
		}
		return func() {
			i.sim.onCacheEvent(i.kind, "add", nil, obj, false)
			for _, h := range i.handlers {
				h.OnAdd(obj, initial)
			}
		}
	case watch.Deleted:
		if !exists {
			return nil
		}
		i.dropCached(ev.Obj)
		// DeltaFIFO hands out the final state carried by the delete event
		obj := cp(ev.Obj)
		return func() {
			i.sim.onCacheEvent(i.kind, "delete", nil, obj, false)
			for _, h := range i.handlers {
				h.OnDelete(obj)
			}
		}
	}
	return nil
}

// DeliverBatch applies up to n pending events of the kind to the cache and only
// then notifies the handlers of each, in order.
func (s *Sim) DeliverBatch(k Kind, n int) bool {
	inf := s.informer(k)
	if inf == nil || len(s.Store.pending[k]) == 0 {
		return false
	}
	if k == KPVC && s.claimGroupInFlight() {
		return false
	}
	var notes []func()
	for j := 0; j < n && len(s.Store.pending[k]) > 0; j++ {
		ev := s.Store.pending[k][0]
		s.Store.pending[k] = s.Store.pending[k][1:]
		if f := inf.stage(ev, false); f != nil {
			notes = append(notes, f)
		}
	}
	if len(notes) > 1 {
		s.count("cache.store_ahead_of_handlers")
	}
	for _, f := range notes {
		f()
	}
	s.afterHandlers()
	return true
}

// Deliver applies the oldest pending event of the kind. Returns false if none.
func (s *Sim) Deliver(k Kind) bool {
	inf := s.informer(k)
	if inf == nil || len(s.Store.pending[k]) == 0 {
		return false
	}
	if k == KPVC && s.claimGroupInFlight() {
		return false
	}
	ev := s.Store.pending[k][0]
	s.Store.pending[k] = s.Store.pending[k][1:]
	inf.apply(ev, false)
	return true
}

// Relist drops all pending events of the kind and replaces the cache content
// by the store content, as a DeltaFIFO Replace does: adds, updates, and deletes
// delivered as DeletedFinalStateUnknown tombstones carrying the stale object.
func (s *Sim) Relist(k Kind) {
	inf := s.informer(k)
	if inf == nil {
		return
	}
	if k == KPVC && s.claimGroupInFlight() {
		return
	}
	s.Store.pending[k] = nil
	s.count("cache.relist")
	live := map[string]Obj{}
	for ky, o := range s.Store.tables[k] {
		live[ky] = o
	}
	// deletions first is what Replace+Pop produces for keys that vanished? No:
	// Replace queues Sync/Replaced deltas for listed objects, then Deleted for
	// missing ones. Keep that order.
	keys := make([]string, 0, len(live))
	for ky := range live {
		keys = append(keys, ky)
	}
	sort.Strings(keys)
	for _, ky := range keys {
		o := live[ky]
		oldI, exists, _ := inf.indexer.Indexer.GetByKey(ky)
		if exists && oldI.(Obj).GetResourceVersion() == o.GetResourceVersion() {
			// sharedIndexInformer.OnUpdate treats a Replaced delta with an unchanged
			// resourceVersion as a sync notification, which is distributed only to
			// listeners that asked for periodic resync: nothing is delivered here.
			continue
		}
		inf.apply(WatchEvent{Type: watch.Modified, Obj: o}, false)
	}
	cached := inf.indexer.Indexer.ListKeys()
	sort.Strings(cached)
	for _, ky := range cached {
		if _, ok := live[ky]; ok {
			continue
		}
		oldI, _, _ := inf.indexer.Indexer.GetByKey(ky)
		old := oldI.(Obj)
		inf.dropCached(old)
		s.count("cache.tombstone")
		tomb := cache.DeletedFinalStateUnknown{Key: ky, Obj: old}
		s.onCacheEvent(k, "tombstone", nil, old, false)
		for _, h := range inf.handlers {
			h.OnDelete(tomb)
		}
	}
	s.afterHandlers()
}

// Resync calls OnUpdate(obj,obj) for every cached object of the kind.
func (s *Sim) Resync(k Kind) {
	inf := s.informer(k)
	if inf == nil {
		return
	}
	s.count("cache.resync")
	keys := inf.indexer.Indexer.ListKeys()
	sort.Strings(keys)
	for _, ky := range keys {
		oI, _, _ := inf.indexer.Indexer.GetByKey(ky)
		obj := oI.(Obj)
		s.onCacheEvent(k, "update", obj, obj, true)
		for _, h := range inf.handlers {
			h.OnUpdate(obj, obj)
		}
	}
	s.afterHandlers()
}

// ResyncOne is Resync for one cached object.
func (s *Sim) ResyncOne(k Kind, ky string) {
	inf := s.informer(k)
	if inf == nil {
		return
	}
	oI, ok, _ := inf.indexer.Indexer.GetByKey(ky)
	if !ok {
		return
	}
	obj := oI.(Obj)
	s.onCacheEvent(k, "update", obj, obj, true)
	for _, h := range inf.handlers {
		h.OnUpdate(obj, obj)
	}
	s.afterHandlers()
}

// initialList fills a fresh cache from the store (restart), adds in key order.
func (s *Sim) initialList(k Kind) {
	inf := s.informer(k)
	s.Store.pending[k] = nil
	for _, ky := range s.Store.Keys(k) {
		inf.apply(WatchEvent{Type: watch.Added, Obj: s.Store.tables[k][ky]}, true)
	}
	inf.synced = true
}

// checkShadows compares every cached object with its shadow copy (C10 cache
// mutation detector). Returns a description of the first difference.
func (s *Sim) checkShadows() string {
	if s.inc == nil {
		return ""
	}
	for _, inf := range s.inc.informers {
		if inf == nil {
			continue
		}
		keys := inf.indexer.Indexer.ListKeys()
		sort.Strings(keys)
		for _, ky := range keys {
			oI, _, _ := inf.indexer.Indexer.GetByKey(ky)
			sh, ok := inf.shadow[ky]
			if !ok {
				return fmt.Sprintf("%s %s cached without shadow", inf.kind, ky)
			}
			if !reflect.DeepEqual(oI, sh) {
				return fmt.Sprintf("%s %s", inf.kind, ky)
			}
		}
	}
	return ""
}

func (s *Sim) informer(k Kind) *informerStub {
	if s.inc == nil {
		return nil
	}
	return s.inc.informers[k]
}

// CacheLag reports the number of undelivered events per kind.
func (s *Sim) CacheLag(k Kind) int { return len(s.Store.pending[k]) }

var _ = apierrors.IsNotFound
var _ = v1.PodRunning
var _ = appsv1.ControllerRevision{}
var _ = asv1.StatefulSet{}

// claimGroupInFlight reports whether a worker is parked inside the claim loop of
// a CreateStatefulPod. The code under test walks the claims of a pod in map
// order, interleaving cache lookups with creates; the claim cache is frozen for
// that span so that the walk order cannot influence the run (DESIGN.md §3.7).
func (s *Sim) claimGroupInFlight() bool {
	for _, w := range s.ParkedWorkers() {
		if w.pending.Kind == KPVC && w.pending.Verb == "create" {
			return true
		}
	}
	return false
}
