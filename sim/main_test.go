package sim

import (
	"fmt"
	"os"
	"strconv"
	"testing"
	"time"
)

func envInt(name string, def int) int {
	if v := os.Getenv(name); v != "" {
		n, err := strconv.Atoi(v)
		if err == nil {
			return n
		}
	}
	return def
}

func TestSmoke(t *testing.T) {
	n := envInt("VERIF_N", 20)
	seed := uint64(envInt("VERIF_SEED", 1))
	start := time.Now()
	for i := 0; i < n; i++ {
		res := RunOne(t, RunSpec{Seed: mix(seed, uint64(i)), Profile: "base"})
		if res.Harness != "" {
			t.Fatalf("run %d: harness error: %s", i, res.Harness)
		}
		if os.Getenv("VERIF_V") != "" {
			for _, l := range res.Trace {
				fmt.Println(l)
			}
		}
		fmt.Printf("run %d seed=%d steps=%d hash=%x viol=%d reconciles=%d final=%v\n", i, res.Spec.Seed, len(res.Steps), res.TraceHash, len(res.Violations), res.Counters["reconciles"], res.Final)
		for _, v := range res.Violations {
			fmt.Printf("   VIOL %s %s: %s\n", v.Check, v.Disc, v.Detail)
		}
	}
	fmt.Printf("%d runs in %v\n", n, time.Since(start))
}

func TestOne(t *testing.T) {
	seed, _ := strconv.ParseUint(os.Getenv("VERIF_RUNSEED"), 10, 64)
	prof := os.Getenv("VERIF_PROFILE")
	if prof == "" {
		prof = "base"
	}
	res := RunOne(t, RunSpec{Seed: seed, Profile: prof})
	for _, l := range res.Trace {
		fmt.Println(l)
	}
	fmt.Println("harness:", res.Harness)
	for _, v := range res.Violations {
		fmt.Printf("VIOL %s %s: %s\n", v.Check, v.Disc, v.Detail)
	}
	fmt.Println(res.Final)
}

// TestWorker runs the job in $VERIF_JOB (a JSON file) and writes the partial result.
func TestWorker(t *testing.T) {
	path := os.Getenv("VERIF_JOB")
	if path == "" {
		t.Skip("no VERIF_JOB")
	}
	var job Job
	readJSON(path, &job)
	p := runEngineJob(t, job)
	writeJSON(job.Out, p)
}

// TestMinimize minimises the failure in $VERIF_FAILURE and writes a replay file to $VERIF_OUT.
func TestMinimize(t *testing.T) {
	path := os.Getenv("VERIF_FAILURE")
	if path == "" {
		t.Skip("no VERIF_FAILURE")
	}
	var f Failure
	readJSON(path, &f)
	budget := time.Duration(envInt("VERIF_MIN_SEC", 60)) * time.Second
	r := minimizeEngine(t, f, budget)
	if r == nil {
		fmt.Println("MINIMIZE: not reproducible from explicit steps")
		os.Exit(3)
	}
	writeJSON(os.Getenv("VERIF_OUT"), r)
	fmt.Printf("MINIMIZE: %d steps\n", len(r.Steps))
}

// TestReplay re-executes $VERIF_REPLAY; prints REPRODUCED or NOT-REPRODUCED.
func TestReplay(t *testing.T) {
	path := os.Getenv("VERIF_REPLAY")
	if path == "" {
		t.Skip("no VERIF_REPLAY")
	}
	var r Replay
	readJSON(path, &r)
	ok, hash, detail, trace := replayEngine(t, &r)
	if os.Getenv("VERIF_V") != "" {
		for _, l := range trace {
			fmt.Println(l)
		}
	}
	if ok && hash == r.Expect.TraceHash {
		fmt.Printf("REPRODUCED check=%s disc=%q hash=%x\n%s\n", r.Check, r.Disc, hash, detail)
		return
	}
	if ok {
		fmt.Printf("REPRODUCED-DIFFERENT-TRACE check=%s hash=%x expected=%x\n", r.Check, hash, r.Expect.TraceHash)
		os.Exit(4)
	}
	fmt.Printf("NOT-REPRODUCED check=%s\n", r.Check)
	os.Exit(5)
}

// TestRunSeed runs one generated run (no explicit steps) of $VERIF_ENGINE / $VERIF_PROFILE
// / $VERIF_RUNSEED; used to confirm a process death attributed to that seed.
func TestRunSeed(t *testing.T) {
	if os.Getenv("VERIF_RUNSEED") == "" || os.Getenv("VERIF_ENGINE") == "" {
		t.Skip("no VERIF_RUNSEED / VERIF_ENGINE")
	}
	seed, _ := strconv.ParseUint(os.Getenv("VERIF_RUNSEED"), 10, 64)
	res := engineRun(os.Getenv("VERIF_ENGINE"))(t, RunSpec{Seed: seed, Profile: os.Getenv("VERIF_PROFILE")})
	fmt.Printf("SURVIVED violations=%d harness=%q\n", len(res.Violations), res.Harness)
}
