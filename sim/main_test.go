package sim

import (
	"fmt"
	"os"
	"strconv"
	"testing"
	"time"
)

func envInt(name string, def int) int {
	if v := os.Getenv(name); v != "" {
		n, err := strconv.Atoi(v)
		if err == nil {
			return n
		}
	}
	return def
}

func TestSmoke(t *testing.T) {
	n := envInt("VERIF_N", 20)
	seed := uint64(envInt("VERIF_SEED", 1))
	start := time.Now()
	for i := 0; i < n; i++ {
		res := RunOne(t, RunSpec{Seed: mix(seed, uint64(i)), Profile: "base"})
		if res.Harness != "" {
			t.Fatalf("run %d: harness error: %s", i, res.Harness)
		}
		if os.Getenv("VERIF_V") != "" {
			for _, l := range res.Trace {
				fmt.Println(l)
			}
		}
		fmt.Printf("run %d seed=%d steps=%d hash=%x viol=%d reconciles=%d final=%v\n", i, res.Spec.Seed, len(res.Steps), res.TraceHash, len(res.Violations), res.Counters["reconciles"], res.Final)
		for _, v := range res.Violations {
			fmt.Printf("   VIOL %s %s: %s\n", v.Check, v.Disc, v.Detail)
		}
	}
	fmt.Printf("%d runs in %v\n", n, time.Since(start))
}

func TestOne(t *testing.T) {
	seed, _ := strconv.ParseUint(os.Getenv("VERIF_RUNSEED"), 10, 64)
	prof := os.Getenv("VERIF_PROFILE")
	if prof == "" {
		prof = "base"
	}
	res := RunOne(t, RunSpec{Seed: seed, Profile: prof})
	for _, l := range res.Trace {
		fmt.Println(l)
	}
	fmt.Println("harness:", res.Harness)
	for _, v := range res.Violations {
		fmt.Printf("VIOL %s %s: %s\n", v.Check, v.Disc, v.Detail)
	}
	fmt.Println(res.Final)
}
